#!/usr/bin/env python3
"""assemble /verif/DESIGN.md from design/head.md, generated per-property sections and tables, design/tail.md.
run with the overlay interpreter: .venv/bin/python bin/mkdesign.py"""
import glob
import importlib
import json
import os
import re
import subprocess
import sys

V = '/verif'
sys.path.insert(0, V)
os.environ.setdefault('BCL_DATA_DIR', '/tmp/bcl_mkdesign')
os.makedirs(os.environ['BCL_DATA_DIR'], exist_ok=True)

props = [json.loads(l) for l in open(os.path.join(V, 'properties.jsonl'))]
man = json.load(open(os.path.join(V, 'MANIFEST.json')))
kfj = json.load(open(os.path.join(V, 'known_findings.json')))
na = {x['property_id']: x['reason'] for x in man.get('not_applicable', [])}
seeded = []
for f in sorted(glob.glob(os.path.join(V, 'seeded', '*', 'meta.json'))):
    seeded.append(json.load(open(f)))
notes = {}
for f in glob.glob(os.path.join(V, 'design', 'notes', 'C*.md')):
    notes[os.path.basename(f)[:3]] = open(f).read().strip()


def cell(s):
    return str(s).replace('|', '\\|').replace('\n', ' ')


out = []
head = open(os.path.join(V, 'design', 'head.md')).read()
nfix = len(kfj['fixed'])
head = head.replace('**17 genuine defects were repaired**', '**%d genuine defects were repaired**' % nfix)
head = head.replace('**39 are recorded as known findings**', '**%d are recorded as known findings**' % len(kfj['findings']))
head = head.replace('54 seeded changes', '%d seeded changes' % len(seeded))
out.append(head.rstrip() + '\n')

out.append('\n---------------------------------------------------------------------------------------------------\n')
out.append('## 3. Per property: what is executed, bounds, what is outside\n')
out.append('Generated from the harness modules (`harness/cNN.py`: docstring, `ASSUMPTIONS`, `BOUNDS`, `OUTSIDE`) - the same '
           'texts go into the evidence files. "Jobs" are independent harness runs (one process each). Oracles come from `ref/` '
           '(written from the BIPs / Bitcoin Core, never from bitcoinlib) or are stated in the obligation names.\n')
for p in props:
    pid = p['id']
    out.append('\n### %s - %s\n' % (pid, p['title']))
    if pid in na:
        out.append('**Not applicable.** %s\n' % na[pid])
        continue
    h = importlib.import_module('harness.' + pid.lower())
    doc = (h.__doc__ or '').strip()
    out.append(doc + '\n')
    jq, jt = h.jobs('quick'), h.jobs('thorough')
    eng = sorted(set(j.engine for j in jq))
    ev = {}
    try:
        ev = json.load(open(os.path.join(V, 'evidence', pid + '.json')))
    except Exception:
        pass
    cov = ev.get('coverage', {})
    out.append('* **Engine / size**: %s; %d jobs quick, %d thorough. Last full %s run: %s paths, %s obligations (all discharged: %s), '
               '%s solver queries, %.0f s wall.' % (
                   ' + '.join({'sx': 'SX (symx)', 'ch': 'CH (CrossHair)'}.get(e, e) for e in eng), len(jq), len(jt), ev.get('tier', '?'),
                   cov.get('states', '?'), cov.get('obligations', '?'), 'yes' if cov.get('obligations') == cov.get('discharged') else 'NO',
                   cov.get('solver_queries', '?'), float(ev.get('wall_s') or 0)))
    b = getattr(h, 'BOUNDS', {})
    out.append('* **Bounds (quick)**: %s' % b.get('quick', ''))
    out.append('* **Bounds (thorough)**: %s' % b.get('thorough', ''))
    out.append('* **Assumptions / stubs**:')
    for a in getattr(h, 'ASSUMPTIONS', []):
        out.append('  * %s' % a)
    out.append('* **Outside the claim**: %s' % getattr(h, 'OUTSIDE', ''))
    fx = [f for f in kfj['fixed'] if ('property=%s ' % pid) in f]
    fd = [f['id'] for f in kfj['findings'] if f['property'] == pid]
    if fx:
        out.append('* **Repaired defects**: ' + '; '.join(re.sub(r'^fixed: property=\S+ ', '', f).split(' ')[0] for f in fx) + ' (see 4.1)')
    if fd:
        out.append('* **Known findings**: ' + ', '.join('`%s`' % x for x in fd) + ' (see 4.2)')
    if pid in notes:
        out.append('\n' + notes[pid])
    out.append('')

out.append('\n---------------------------------------------------------------------------------------------------\n')
out.append('## 4. Genuine defects found by the checks\n')
out.append('Every entry was exhibited by a solver model from the real code and reproduced by the concrete replay on the '
           'unpatched tree before anything was changed.\n')
out.append('### 4.1 Repaired (`fix:` commits in /repo; the check passes on the repaired tree and reports the violation again if it returns)\n')
out.append('| property | commit | what failed |\n|---|---|---|')
for f in kfj['fixed']:
    m = re.match(r'fixed: property=(\S+) (\S+) (.*)', f, re.S)
    out.append('| %s | `%s` | %s |' % (m.group(1), m.group(2), cell(m.group(3))))
try:
    log = subprocess.run(['git', '-C', '/repo', 'log', '--format=%h %s', '--grep=^fix:'], capture_output=True, text=True).stdout.strip().splitlines()
    out.append('\n`git -C /repo log --grep=^fix:` (%d commits):\n' % len(log))
    out.append('```\n' + '\n'.join(log) + '\n```')
except Exception:
    pass
out.append('\n### 4.2 Known findings (recorded in `known_findings.json`; printed as `KNOWN-FINDING:` lines, exit 0)\n')
out.append('| id | what fails | why not repaired |\n|---|---|---|')
for f in kfj['findings']:
    out.append('| `%s` | %s | %s |' % (f['id'], cell(f['what']), cell(f.get('why_not_fixed', ''))))
out.append('')

tail = open(os.path.join(V, 'design', 'tail.md')).read()
t1, t2 = tail.split('---------------------------------------------------------------------------------------------------\n', 1)
out.append(t1.rstrip() + '\n')

out.append('\n---------------------------------------------------------------------------------------------------\n')
out.append('## 5. Seeded changes: which check catches which\n')
out.append('Each change was produced by a fresh sub-agent that saw only the property text and its own scratch worktree of the '
           'library (nothing from /verif), had to pass the whole baseline suite and to need something specific to manifest. I '
           'confirmed each one myself (patch applies, demo fails with / passes without it, baseline suite) before keeping it. '
           '`bin/trymut.sh <dir> <Cnn>` applies a change to /repo, runs the demo and the check, and reverts it.\n')
caught = sum(1 for s in seeded if s['detection'].startswith('CAUGHT'))
later = sum(1 for s in seeded if s['detection'].startswith('MISSED') and 'CAUGHT' in s['detection'])
other = sum(1 for s in seeded if s['detection'].startswith('NOT CAUGHT by') and '; CAUGHT by ./vt check' in s['detection'])
missed = len(seeded) - caught - later - other
out.append('Totals: %d kept; %d caught by the check as it stood, %d missed at first and caught after the harness was strengthened, '
           '%d not caught by the check of the property they were written for but by the check of a neighbouring property, '
           '%d still missed (outside the stated claim of the check; reasons in the table).\n' % (len(seeded), caught, later, other, missed))
out.append('One further change delivered for C11 (deserialize_address cutting `address_bytes[-25:-4]`, accepting extra leading `1` '
           'characters) was MISSED by the check as it stood; building the address-level jobs for it exposed two genuine defects of '
           'the unchanged tree in the same lines (fixed 58a7674, c211cd0). With those repairs the change no longer has an effect '
           '(its demo passes), so it is not kept as a seeded change.\n')
out.append('| seeded change | needs, to manifest | detection |\n|---|---|---|')
for s in seeded:
    out.append('| `%s` | %s | %s |' % (s['id'], cell(s['needs_to_manifest']), cell(s['detection'])))
out.append('')
out.append('\n---------------------------------------------------------------------------------------------------\n')
out.append(t2.rstrip() + '\n')
open(os.path.join(V, 'DESIGN.md'), 'w').write('\n'.join(out))
print('DESIGN.md written: %d lines; fixed=%d findings=%d seeded=%d (caught %d, strengthened %d, other-check %d, missed %d)' % (
    sum(x.count('\n') + 1 for x in out), nfix, len(kfj['findings']), len(seeded), caught, later, other, missed))
