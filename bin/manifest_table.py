NOTES = ("Solver-based checking of the real code: every check symbolically executes the real bitcoinlib functions imported from /repo's working "
         "tree and discharges obligations with z3; a pass means 'unsat for the negated property on every feasible path inside the stated bounds' "
         "(bounds are in each evidence file and in DESIGN.md). Exit 0 ok / 1 VIOLATION (replayed on the real code first) / 2 inconclusive / 3 harness error.")
PENDING = "check not built yet in this round (planned, see DESIGN.md section 2); listed here until its harness is committed"
NOT_APPLICABLE = {
 'C01': PENDING, 'C02': PENDING, 'C03': PENDING, 'C04': PENDING, 'C05': PENDING, 'C06': PENDING, 'C07': PENDING,
 'C08': "wallet ledger: all state and mechanisms are SQLAlchemy ORM queries executed by SQLite; symbolic execution would need a model of the SQL engine and the ORM identity map, which would not be the real code (DESIGN.md C08)",
 'C09': PENDING, 'C10': PENDING, 'C11': PENDING, 'C12': PENDING, 'C13': PENDING,
 'C14': "BIP39 is defined through SHA-256 and PBKDF2-HMAC-SHA512 (C code); the remaining logic is change_base digit loops with 2^132 paths for the smallest entropy and no state merging in either engine (DESIGN.md C14)",
 'C15': PENDING, 'C16': PENDING, 'C17': PENDING, 'C19': PENDING, 'C20': PENDING,
}
CLAIMED['C18'] = (
 'symbolic execution of the real encoders/decoders/script parser (symx proxies over z3 bit-vectors), per-path SMT obligations against protocol reference models',
 'For every value inside the stated bounds (all n < 2^64, all 9-byte buffers, all script numbers |n| < 2^63, listed push lengths, all raw scripts of <= 2 (thorough 3) bytes, command sequences of <= 2 (thorough 3) items with symbolic opcodes/content) z3 returned unsat for the negated property on every feasible path of the real functions; counterexamples are replayed on the unshimmed library before being reported.',
 'Trusted: z3, the proxy/shim layer (validated by witness replay on every path), the reference models in /verif/ref/wire.py. Outside: longer scripts, PUSHDATA4, listed known findings (varstr of a single zero byte, whole-script size heuristics, nested-data parsing).',
 'DESIGN.md C18')
CLAIMED['C19'] = (
 'symbolic execution of every real Stack.op_* method and of Script.evaluate (symx proxies over z3 bit-vectors) against a reference EvalScript transcribed from Bitcoin Core; per-path SMT obligations with deviation models for listed findings',
 'Per opcode: for every stack of depth 0..arity+1 with operand items of every length 0..5 (arithmetic) / 0..2 (stack ops) and fully symbolic content, z3 shows the real op method has the consensus outcome (same success/failure, same stack) or exactly a listed deviation; through the real Script.evaluate: every program of <= 3-4 (thorough 4) commands over a 13-symbol flow/verdict alphabet with symbolic push contents has the reference verdict. Anything that is neither consensus nor a listed deviation is reported after concrete replay.',
 'Trusted: z3, proxy/shim layer (witness replay per path), reference interpreter /verif/ref/interp.py, hash opcodes as shared uninterpreted symbols. Outside: CHECKSIG family, altstack, CLTV/CSV, longer programs. Listed findings: 10 deviation models (operand order of SUB/LESSTHAN.., WITHIN, 2SWAP, PICK/ROLL, TUCK, byte-wise truthiness and NUMEQUAL).',
 'DESIGN.md C19')
CLAIMED['C17'] = (
 'symbolic execution of the real Value/value_to_satoshi/add_output code with an exact integer (LIA) model of IEEE-754 double rounding; per-path SMT obligations discharged by z3',
 'For every integer amount 0..21e14 and every digit string of the listed decimal counts, for each denominator from µsat to M and the listed networks, z3 shows the real parsing code returns exactly the integer number of smallest units (or exactly the listed off-by-one deviation above 2^50 for non-unit denominators); from_satoshi round trip and Value.str digits exact for unit and sat denominators; Transaction.add_output accepts a float only if it is an exact integer. Each float operation is modelled exactly (round-half-even with explicit remainder), validated by replaying a witness per path on real floats.',
 "Trusted: z3 (LIA), the exact float model symx/lia.py (validated per path), contracts of float(str) and '%.Nf' (correct rounding). Outside: 'auto' denominator, Value arithmetic operators, from_satoshi with m/µ/fin/c/d denominators (z3 timeouts, not claimed), negative amounts.",
 'DESIGN.md C17')
CLAIMED['C13'] = (
 'symbolic execution of the real Signature code and the pure-Python DER encoder (symx, 272-bit bit-vectors) with nondeterministic stubs for the C signer/verifier; per-path SMT obligations',
 'For every (r, s) the C signer may return (length classes 1/16/31/32 bytes, every value inside), z3 shows Signature.create returns low S with the same r, DER output is the strict BIP66 encoding plus hash type, range checks accept exactly [1, n-1], compact and DER blobs parse back to (r, s, hash type); the verifier path refuses off-curve keys for both encodings and returns exactly the C verifier result; the nonce is the RFC6979 output for (digest, secret) or the explicit k.',
 'Trusted: z3, proxy/shim layer, stubs for fastecdsa C functions (arbitrary results). Outside: validity under an independent verifier, exactness of the C verifier, nonce uniqueness. Listed finding: DER blobs of <= 64 bytes are rejected by parse_bytes.',
 'DESIGN.md C13')
CLAIMED['C01'] = (
 'symbolic execution of the real Transaction.signature/signature_segwit/raw and Input.update_scripts (symx, bit-vectors) with the double-SHA256 as an uninterpreted collision-free function; per-path SMT obligations: byte equality with reference BIP143 / legacy preimages',
 'For every transaction shape inside the bounds (1-2 (thorough 3) inputs/outputs, every sign index, seven signed-input kinds incl. m-of-n multisig with symbolic m, mixed legacy/segwit inputs) and every value of version, locktime, sequences, outpoints, amounts, keys, script bytes, z3 shows the preimage handed to the hash equals the consensus preimage (nested hashPrevouts/hashSequence/hashOutputs included) and the digest is the hash of it.',
 'Trusted: z3, proxy/shim layer, reference preimages /verif/ref/sighash.py, collision-freeness of the uninterpreted hash, Key.hash160 relation (C04). Outside: Taproot, other hash types, n > 5. Listed finding: an output script that is the single byte 00.',
 'DESIGN.md C01')
CLAIMED['C03'] = (
 'symbolic execution of the real HDKey.child_private/child_public/subkey_for_path/from_seed (symx, 272-bit bit-vectors) in the generic-group model of secp256k1 with HMAC-SHA512 / hash160 / point serialisation as uninterpreted functions; per-path SMT obligations against BIP32 CKD',
 'From an arbitrary parent (every secret in [1,n-1], every chain code, depth), for every index 0..2^32+1 and hardened flag z3 shows: the HMAC key and data bytes are exactly those of BIP32, the child scalar/point is (I_L + k) mod n, invalid I_L is refused, depth/child number/parent fingerprint/chain code are as specified, private and public derivation commute, an index >= 2^31 or a hardened marker is always refused below a public key, and subkey_for_path equals the iterated CKD for every marker spelling.',
 'Trusted: z3, proxy/shim layer, the group model (sound for statements that hold in every cyclic group of order n), uninterpreted HMAC/hash160. Outside: that fastecdsa computes the real curve/HMAC, depth > 2. Listed findings: point at infinity not refused in child_public (model only), seeds made of ASCII hex digits are hex-decoded.',
 'DESIGN.md C03')
CLAIMED['C09'] = (
 'CrossHair symbolic execution (z3) of the real keys.path_expand, main.get_key_structure_data, wallets.normalize_path, Wallet.path_expand / keys_for_path (up to the path request) against BIP44/49/84/45/48 oracles with SLIP-44 coin types; one confirmed condition per configuration',
 'For every network x witness type x single/multisig and every request form (empty, [change,index], [index], named levels, full string/list, level offsets, marker spellings, purpose override, wallet-side composition, mixed witness types) CrossHair confirms over all paths, for all account/address_index in [0,2^31), change in {0,1}, cosigner in [0,15], that the produced path is the BIP path with the documented purpose, coin type and hardened markers; over-long paths and wrong level names are refused.',
 'Trusted: CrossHair/z3, the oracle harness/ch/c09_oracle.py. Outside: index issuance, address uniqueness, restore equivalence (SQLAlchemy queries, not encoded); key material along the path is C03. Listed finding: mixed witness types in multisig wallets give hybrid paths.',
 'DESIGN.md C09')
CLAIMED['C20'] = (
 'CrossHair symbolic execution (z3) of the real Service._provider_execute and the public wrappers on a Service.__new__ object with fake provider classes and a fake cache; scalar solver-chosen outcomes, priorities, limits and cache states; one confirmed condition per scenario family',
 'For 3 (thorough 4) providers with every outcome assignment from {answer, exception, False/empty, AttributeError, missing method}, every strict priority order, max_errors 1..4, max_providers 1..3 CrossHair confirms over all paths: a returned value is the answer of the highest-priority answering provider, the call succeeds when fewer than max_errors failures precede it and fails otherwise; each wrapper (getbalance, getutxos, gettransaction(s), getrawtransaction, sendrawtransaction, blockcount, estimatefee, mempool, isspent) returns exactly the provider answer or the cached copy and passes failure on.',
 'Trusted: CrossHair/z3, the fakes and the fail-over specification in harness/ch/c20_common.py. Outside: the real SQL Cache class, real provider clients/HTTP, flaky providers, equal priorities. Listed findings: estimatefee falls back to the network default, isspent reports failure as unspent.',
 'DESIGN.md C20')
CLAIMED['C02'] = (
 'symbolic execution of the real Input.verify, Transaction.sign and Transaction.verify (symx) with ECDSA abstracted to a validity matrix / token signatures and the digest as the uninterpreted hash of the real preimage; per-path SMT obligations',
 'Counting: for every validity matrix over n <= 3 (thorough 4) distinct keys and signatures and every m, Input.verify is True exactly when the signatures match m keys in key order. Placement: for every sequence of <= 3 (thorough 4) sign() calls with any listed key or none, the input verifies iff >= m distinct keys signed, signatures are in key order without duplicates; a foreign key never counts. Commitment: for the C01 transaction shapes, after signing, any single tampering (version, locktime, any outpoint, sequence, output value or script, segwit input amount, with every new value) makes the real Transaction.verify return False.',
 'Trusted: z3, proxy/shim layer, ECDSA abstraction, collision-free uninterpreted hash. Outside: fastecdsa verify itself (C13), taproot, duplicate keys in one input. Listed finding: output script that is the single byte 00 (shared with C01).',
 'DESIGN.md C02')
