NOTES = ("Solver-based checking of the real code: every check symbolically executes the real bitcoinlib functions imported from /repo's working "
         "tree and discharges obligations with z3; a pass means 'unsat for the negated property on every feasible path inside the stated bounds' "
         "(bounds are in each evidence file and in DESIGN.md). Exit 0 ok / 1 VIOLATION (replayed on the real code first) / 2 inconclusive / 3 harness error.")
PENDING = "check not built yet in this round (planned, see DESIGN.md section 2); listed here until its harness is committed"
NOT_APPLICABLE = {
 'C01': PENDING, 'C02': PENDING, 'C03': PENDING, 'C04': PENDING, 'C05': PENDING, 'C06': PENDING, 'C07': PENDING,
 'C08': "wallet ledger: all state and mechanisms are SQLAlchemy ORM queries executed by SQLite; symbolic execution would need a model of the SQL engine and the ORM identity map, which would not be the real code (DESIGN.md C08)",
 'C09': PENDING, 'C10': PENDING, 'C11': PENDING, 'C12': PENDING, 'C13': PENDING,
 'C14': "BIP39 is defined through SHA-256 and PBKDF2-HMAC-SHA512 (C code); the remaining logic is change_base digit loops with 2^132 paths for the smallest entropy and no state merging in either engine (DESIGN.md C14)",
 'C15': PENDING, 'C16': PENDING, 'C17': PENDING, 'C19': PENDING, 'C20': PENDING,
}
CLAIMED['C18'] = (
 'symbolic execution of the real encoders/decoders/script parser (symx proxies over z3 bit-vectors), per-path SMT obligations against protocol reference models',
 'For every value inside the stated bounds (all n < 2^64, all 9-byte buffers, all script numbers |n| < 2^63, listed push lengths, all raw scripts of <= 2 (thorough 3) bytes, command sequences of <= 2 (thorough 3) items with symbolic opcodes/content) z3 returned unsat for the negated property on every feasible path of the real functions; counterexamples are replayed on the unshimmed library before being reported.',
 'Trusted: z3, the proxy/shim layer (validated by witness replay on every path), the reference models in /verif/ref/wire.py. Outside: longer scripts, PUSHDATA4, listed known findings (varstr of a single zero byte, whole-script size heuristics, nested-data parsing).',
 'DESIGN.md C18')
