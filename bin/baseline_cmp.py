#!/usr/bin/env python3
"""compare a junit xml of the repository suite with /root/.vp/BASELINE.json stable_pass; exit 0 iff every stable test passed"""
import json, sys, xml.etree.ElementTree as ET
base = set(json.load(open('/root/.vp/BASELINE.json'))['stable_pass'])
passed = set()
for tc in ET.parse(sys.argv[1]).getroot().iter('testcase'):
    if not any(ch.tag in ('failure', 'error', 'skipped') for ch in tc):
        passed.add('%s::%s' % (tc.get('classname'), tc.get('name')))
missing = sorted(base - passed)
print('stable baseline %d, passed now %d, baseline tests not passing: %d' % (len(base), len(passed), len(missing)))
for m in missing:
    print('  MISSING', m)
sys.exit(1 if missing else 0)
