"""developer tool: run one job in-process with a profiler.  usage: prof.py <Cnn> <job> <budget_s> [tier]"""
import sys, time, os, importlib
sys.path.insert(0, '/verif')
os.environ.setdefault('BCL_DATA_DIR', '/tmp/bcl_prof'); os.makedirs('/tmp/bcl_prof', exist_ok=True)
from symx import core
h = importlib.import_module('harness.' + sys.argv[1].lower())
tier = sys.argv[4] if len(sys.argv) > 4 else 'quick'
job = [j for j in h.jobs(tier) if j.name == sys.argv[2]][0]
ex = core.Explorer(W=job.W, budget_s=float(sys.argv[3]), allow_symmul=job.allow_symmul, incremental=job.incremental)
ex.optimistic = job.optimistic
if job.setup: job.setup(ex)
import cProfile, pstats
pr = cProfile.Profile(); pr.enable()
try:
    ex.explore(lambda e: job.fn(e, **job.params))
except core.EngineLimit as e:
    print('limit', e)
pr.disable()
st = ex.stats; print({k: v for k, v in st.items() if k not in ('violations', 'known')}, len(st['violations']))
for v in st['violations'][:5]: print(v)
print(getattr(ex, 'cut_reasons', {}))
pstats.Stats(pr).sort_stats('cumulative').print_stats(int(os.environ.get('NPROF', 25)))
