#!/usr/bin/env python3
"""(re)generate /verif/MANIFEST.json from the table below; developer tool, not run by checks"""
import json, os
V = '/verif'
CLAIMED = {
 # id: (technique, level text, level note, design ref)
}
exec(open(os.path.join(V, 'bin', 'manifest_table.py')).read())
checks = []
for pid in sorted(CLAIMED):
    tech, text, note, ref = CLAIMED[pid]
    checks.append(dict(property_id=pid, quick_cmd='./vt check %s --tier quick' % pid, thorough_cmd='./vt check %s --tier thorough' % pid,
                       evidence_file='/verif/evidence/%s.json' % pid, replay_cmd_template='./vt replay {path}', engine='symx' if 'CrossHair' not in tech else 'symx+crosshair',
                       level_claimed=dict(category='model_checking', text=text, design_ref=ref), level_note=note, technique=tech))
na = [dict(property_id=k, reason=v) for k, v in sorted(NOT_APPLICABLE.items()) if k not in CLAIMED]
m = dict(version=1, setup_cmd='./setup.sh',
         hooks=dict(guard='BITCOINLIB_VERIF', enable='no hooks: all interposition is done from outside by rebinding module globals of the imported bitcoinlib modules', baseline_off_cmd='cd /repo && /venv/bin/python -m pytest -ra -q -p no:cacheprovider --timeout=900 --continue-on-collection-errors --junitxml=/tmp/vt_baseline.xml; python3 /verif/bin/baseline_cmp.py /tmp/vt_baseline.xml', source_commits=[], add_only=True),
         engines=[dict(name='symx', path='/verif/symx', serves_properties=sorted(CLAIMED), kind_free_text='proxy-based symbolic execution of the real bitcoinlib functions (SInt/SBool/SBytes/SStr over z3 bit-vectors, DFS path scheduler with solver feasibility checks, uninterpreted-function stubs for hashes/EC), obligations discharged by z3 5.1'),
                  dict(name='crosshair', path='/verif/.venv (crosshair-tool 0.0.110)', serves_properties=[p for p in sorted(CLAIMED) if 'CrossHair' in CLAIMED[p][0]], kind_free_text='CrossHair symbolic execution (z3) of scalar harnesses around real control-flow-heavy functions')],
         checks=checks, notes=NOTES, not_applicable=na)
json.dump(m, open(os.path.join(V, 'MANIFEST.json'), 'w'), indent=1)
print('claimed', sorted(CLAIMED), 'n/a', [x['property_id'] for x in na])
