#!/bin/bash
# usage: confirm.sh Cnn  -> for each mutant apply in worktree, run suite, compare with baseline
P=$1; W=/tmp/wt/$P
cd $W || exit 9
git checkout -q -- . 
for i in 1 2 3; do
  git apply _mut/$i/patch.diff || { echo "$P/$i PATCH FAIL"; continue; }
  T=$(mktemp -d)
  BCL_DATA_DIR=$T /venv/bin/python -m pytest -q -p no:cacheprovider --timeout=900 --continue-on-collection-errors --junitxml=/tmp/wt/junit_${P}_$i.xml -x --co >/dev/null 2>&1
  BCL_DATA_DIR=$T /venv/bin/python -m pytest -q -p no:cacheprovider --timeout=900 --continue-on-collection-errors --junitxml=/tmp/wt/junit_${P}_$i.xml >/tmp/wt/suite_${P}_$i.log 2>&1
  echo "$P/$i: $(/venv/bin/python /verif/bin/baseline_cmp.py /tmp/wt/junit_${P}_$i.xml | head -4 | tr '\n' ' ')"
  rm -rf $T
  git checkout -q -- .
done
