#!/bin/bash
# developer tool: apply a seeded change to /repo, run its demo and the given checks, revert.
# usage: trymut.sh <mutdir containing patch.diff demo.py> <Cnn> [extra vt args]
set -u
D=$1; P=$2; shift 2
cd /repo || exit 9
if ! git diff --quiet; then echo "repo dirty"; exit 9; fi
git apply "$D/patch.diff" || { echo "PATCH DOES NOT APPLY"; exit 9; }
trap 'git -C /repo checkout -- . ' EXIT
T=$(mktemp -d)
( cd /repo && BCL_DATA_DIR=$T /venv/bin/python "$D/demo.py" >/tmp/trymut_demo.log 2>&1 ); echo "demo exit on mutated tree: $? (expect 1)"
cd /verif && VT_EVIDENCE_DIR=/tmp/trymut_evidence ./vt check $P "$@" 2>&1 | grep -E "^(VIOLATION|HARNESS|INCONCL|C[0-9]+ tier|  obligation)" | cut -c1-400
echo "check exit: ${PIPESTATUS[0]}"
rm -rf $T
