#!/usr/bin/env python3
"""store a confirmed seeded change under /verif/seeded/<id>/ : savemut.py <prop> <srcdir> <id> <needs> <caught: text>"""
import json, os, shutil, sys
prop, src, mid, needs, caught = sys.argv[1:6]
dst = '/verif/seeded/%s' % mid
os.makedirs(dst, exist_ok=True)
shutil.copy(os.path.join(src, 'patch.diff'), dst)
shutil.copy(os.path.join(src, 'demo.py'), dst)
if os.path.exists(os.path.join(src, 'notes.md')):
    shutil.copy(os.path.join(src, 'notes.md'), dst)
meta = dict(id=mid, property=prop, needs_to_manifest=needs, origin='independent sub-agent given only the property text and a scratch worktree',
            confirmed=['git -C /repo apply patch.diff; demo.py exits 1; git checkout; demo.py exits 0 (bin/trymut.sh)',
                       os.environ.get('SUITE_NOTE', 'existing suite: per notes.md of the agent (536 baseline tests still pass)')],
            detection=caught)
json.dump(meta, open(os.path.join(dst, 'meta.json'), 'w'), indent=1)
print('saved', dst)
