import time, sys
sys.path.insert(0, __import__('os').path.dirname(__import__('os').path.abspath(__file__)))
import symx
from symx import Explorer, SInt, SBytes, IntShimC
import bitcoinlib.encoding as E
import bitcoinlib.scripts as S
E.int = IntShimC; E.bytes = symx.BytesShimC; S.bytes = symx.BytesShimC
S.int = IntShimC

def ref_compact(n):
    if n < 0xfd: return n.to_bytes(1,'little')
    if n <= 0xffff: return b'\xfd'+n.to_bytes(2,'little')
    if n <= 0xffffffff: return b'\xfe'+n.to_bytes(4,'little')
    return b'\xff'+n.to_bytes(8,'little')

def h_compact(ex):
    n = ex.int('n', 0, 2**64-1)
    enc = E.int_to_varbyteint(n)
    ref = ref_compact(n)
    ex.check(len(enc) == len(ref) and enc == ref, 'canonical')
    v, size = E.varbyteint_to_int(enc + b'\x99\x98')   # trailing bytes must be ignored
    ex.check((v == n) & (size == len(enc)) if not isinstance(v == n, bool) else (v == n and size == len(enc)), 'roundtrip')

def h_scriptnum(ex):
    n = ex.int('n', -(2**31)+1, 2**31-1)
    e = S.encode_num(n)
    d = S.decode_num(e)
    ex.check(d == n, 'roundtrip')
    ex.check(len(e) <= 4, 'len')

def run(h, **kw):
    t=time.time(); ex = Explorer(**kw); st = ex.explore(h); print(h.__name__, {k:(v if k!='violations' else v[:3]) for k,v in st.items()}, 'wall %.1fs'%(time.time()-t))

run(h_compact)
run(h_scriptnum)
