import bitcoinlib.transactions as T

def run_verify(a00: bool, a01: bool, a02: bool, a10: bool, a11: bool, a12: bool, a20: bool, a21: bool, a22: bool, m: int, nk: int, ns: int) -> bool:
    """
    pre: 1 <= nk <= 3 and 1 <= ns <= 3 and 1 <= m <= nk
    pre: (a00 + a01 + a02) <= 1 and (a10 + a11 + a12) <= 1 and (a20 + a21 + a22) <= 1
    post: _
    """
    v = [[a00, a01, a02], [a10, a11, a12], [a20, a21, a22]]
    inp = T.Input.__new__(T.Input)
    inp.script_type = 'p2sh_multisig'
    inp.index_n = 0
    inp.sigs_required = m
    inp.keys = list(range(nk))
    inp.signatures = list(range(ns))
    inp.valid = None
    orig = T.verify
    T.verify = lambda h, sig, key: v[sig][key]
    try:
        res = T.Input.verify(inp, b'h')
    finally:
        T.verify = orig
    pairs = [(i, j) for i in range(ns) for j in range(nk) if v[i][j]]
    distinct_sigs = len(set(i for i, j in pairs))
    distinct_keys = len(set(j for i, j in pairs))
    if res:
        return distinct_sigs >= m and distinct_keys >= m
    return True
