from bitcoinlib.keys import path_expand

def chk_path84(account: int, change: int, idx: int) -> bool:
    """
    pre: 0 <= account < 2**31 and 0 <= change <= 1 and 0 <= idx < 2**31
    post: _
    """
    p = path_expand([], account_id=account, change=change, address_index=idx, witness_type='segwit', network='bitcoin')
    return p == ['m', "84'", "0'", str(account) + "'", str(change), str(idx)]

def chk_path_list(account: int, change: int, idx: int) -> bool:
    """
    pre: 0 <= account < 2**31 and 0 <= change <= 1 and 0 <= idx < 2**31
    post: _
    """
    p = path_expand([change, idx], account_id=account, witness_type='legacy', network='litecoin')
    return p == ['m', "44'", "2'", str(account) + "'", str(change), str(idx)]
