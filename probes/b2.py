import z3, time, sys
GEN = [0x3b6a57b2, 0x26508e6d, 0x1ea119fa, 0x3d4233dd, 0x2a1462b3]
def polymod(values):
    chk = z3.BitVecVal(1, 30)
    for v in values:
        top = z3.LShR(chk, 25)
        chk = ((chk & 0x1ffffff) << 5) ^ (z3.ZeroExt(25, v) if not isinstance(v, int) else z3.BitVecVal(v, 30))
        for i in range(5):
            chk = chk ^ z3.If(z3.Extract(i, i, top) == 1, z3.BitVecVal(GEN[i], 30), z3.BitVecVal(0, 30))
    return chk
hrp = 'bc'
hx = [ord(c) >> 5 for c in hrp] + [0] + [ord(c) & 31 for c in hrp]
for n in (8, 16, 33, 53):
    d = [z3.BitVec('d%d' % i, 5) for i in range(n)]
    pm = polymod(hx + d + [0]*6) ^ 1
    chk = [z3.Extract(4, 0, z3.LShR(pm, 5 * (5 - i))) for i in range(6)]
    s = z3.Solver(); s.set('timeout', 120000)
    s.add(polymod(hx + d + chk) != 1)
    t = time.time(); r = s.check(); print(n, r, time.time() - t, flush=True)
