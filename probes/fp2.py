import z3, time, math
from fractions import Fraction

def fl_parts(x):
    """x>0 double -> (M,e) with x = M*2^e, 2^52<=M<2^53"""
    m, e = math.frexp(x)
    M = int(m * 2**53); e -= 53
    assert Fraction(M) * Fraction(2)**e == Fraction(x)
    return M, e

def rne_div(s, num, den, name):
    """num, den: z3 Int terms/consts >0 ; returns Int term = round_half_even(num/den)"""
    qf = z3.Int(name+'_q'); r = z3.Int(name+'_r'); p = z3.Int(name+'_p'); t = z3.Int(name+'_t')
    s.add(num == qf*den + r, r >= 0, r < den, qf == 2*t + p, p >= 0, p <= 1)
    up = z3.Or(2*r > den, z3.And(2*r == den, p == 1))
    return z3.If(up, qf + 1, qf)

def pow2mul(term, sh):
    return term * (2**sh) if sh >= 0 else None

Md, ed = fl_parts(1e-8)
tot_q = 0; t0 = time.time(); viol = []
KMAX = 21*10**14
for E in range(-27, 25):
    kl = max(1, math.ceil(Fraction(2)**E * 10**8)); kh = min(KMAX, math.ceil(Fraction(2)**(E+1) * 10**8) - 1)
    if kl > kh: continue
    for E2 in range(kl.bit_length()-2, kh.bit_length()+1):
        s = z3.Solver(); s.set('timeout', 60000)
        k = z3.Int('k'); s.add(k >= kl, k <= kh)
        # m1 = RNE(k * 2^(52-E) / 1e8)
        sh = 52 - E
        m1 = rne_div(s, k * 2**sh, z3.IntVal(10**8), 'a') if sh >= 0 else rne_div(s, k, z3.IntVal(10**8 * 2**(-sh)), 'a')
        # v = m1 * 2^(E-52); v/d = m1*2^(E-52-ed)/Md ; binade E2
        sh2 = E - 52 - ed     # v/d = m1 * 2^sh2 / Md
        assert sh2 >= 0
        num = m1 * 2**sh2
        if E2 >= 0:
            s.add(num >= Md * 2**E2, num < Md * 2**(E2+1))
        else:
            s.add(num * 2**(-E2) >= Md, num * 2**(-E2-1) < Md)
        # m2 = RNE(num * 2^(52-E2) / Md)
        sh3 = 52 - E2
        m2 = rne_div(s, num * 2**sh3, z3.IntVal(Md), 'b') if sh3 >= 0 else rne_div(s, num, z3.IntVal(Md * 2**(-sh3)), 'b')
        # r = round_half_even(m2 * 2^(E2-52))
        if E2 >= 52:
            r = m2 * 2**(E2-52)
        else:
            r = rne_div(s, m2, z3.IntVal(2**(52-E2)), 'c')
        s.add(r != k)
        tq = time.time(); res = s.check(); tot_q += 1
        if str(res) != 'unsat':
            kv = s.model()[k].as_long() if str(res) == 'sat' else None
            viol.append((E, E2, str(res), kv, None if kv is None else round((kv/1e8)/1e-8)))
            print('E', E, 'E2', E2, res, kv, time.time()-tq, flush=True)
print('queries', tot_q, 'wall', time.time()-t0, 'non-unsat', len(viol))
