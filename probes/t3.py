import time, sys
sys.path.insert(0, __import__('os').path.dirname(__import__('os').path.abspath(__file__)))
import symx, z3
from symx import Explorer, SInt, SBytes, IntShimC, BytesShimC
import bitcoinlib.encoding as E
import bitcoinlib.transactions as T
E.int = IntShimC; E.bytes = BytesShimC; T.int = IntShimC; T.bytes = BytesShimC

class HashStub:
    def __init__(self, ex): self.ex = ex; self.calls = []
    def __call__(self, data, as_hex=False):
        if isinstance(data, bytes): data = SBytes(list(data))
        out = SBytes([z3.BitVec('h%d_%d' % (len(self.calls), i), 8) for i in range(32)])
        self.calls.append((data, out))
        return out
    def axioms(self):
        ax = []
        for i in range(len(self.calls)):
            for j in range(i):
                (pi, oi), (pj, oj) = self.calls[i], self.calls[j]
                eo = z3.And([a == b for a, b in zip(oi.term(), oj.term())])
                if len(pi) != len(pj):
                    ax.append(z3.Not(eo))          # collision-freeness assumption
                else:
                    ep = z3.And([a == b for a, b in zip(pi.term(), pj.term())]) if len(pi) else z3.BoolVal(True)
                    ax.append(ep == eo)             # functional + injective
        return ax

def ref_compact(n):
    if n < 0xfd: return bytes([n])
    if n <= 0xffff: return b'\xfd' + n.to_bytes(2, 'little')
    if n <= 0xffffffff: return b'\xfe' + n.to_bytes(4, 'little')
    return b'\xff' + n.to_bytes(8, 'little')

def ref_bip143(H, version, ins, outs, locktime, i, script_code, amount, hash_type=1):
    prevouts = SBytes([]); seqs = SBytes([]); o = SBytes([])
    for (txid, n, seq) in ins:
        prevouts = prevouts + txid[::-1] + n.to_bytes(4, 'little'); seqs = seqs + seq.to_bytes(4, 'little')
    for (val, spk) in outs:
        o = o + val.to_bytes(8, 'little') + ref_compact(len(spk)) + spk
    txid, n, seq = ins[i]
    return version.to_bytes(4, 'little') + H(prevouts) + H(seqs) + txid[::-1] + n.to_bytes(4, 'little') + \
        ref_compact(len(script_code)) + script_code + amount.to_bytes(8, 'little') + seq.to_bytes(4, 'little') + \
        H(o) + locktime.to_bytes(4, 'little') + hash_type.to_bytes(4, 'little')

class Obj: pass

def h_bip143(ex):
    H = HashStub(ex); T.double_sha256 = H
    nin = ex.choose('nin', [1, 2]); nout = ex.choose('nout', [1, 2])
    version = ex.int('version', 0, 2**32-1); locktime = ex.int('locktime', 0, 2**32-1)
    ins = []; outs = []
    t = T.Transaction.__new__(T.Transaction)
    t.witness_type = 'segwit'; t.inputs = []; t.outputs = []
    t.version = version.to_bytes(4, 'big'); t.locktime = locktime
    for k in range(nin):
        txid = ex.bytes('txid%d' % k, 32); n = ex.int('n%d' % k, 0, 2**32-1); seq = ex.int('seq%d' % k, 0, 2**32-1)
        amount = ex.int('amt%d' % k, 1, 21*10**14)
        lsc = ex.choose('lsc%d' % k, [1, 2, 25]); sc = ex.bytes('sc%d' % k, lsc)
        i = Obj(); i.prev_txid = txid; i.output_n = n.to_bytes(4, 'big'); i.sequence = seq; i.value = amount
        i.script_type = 'sig_pubkey'; i.redeemscript = b''; i.locking_script = sc; i.index_n = k
        t.inputs.append(i); ins.append((txid, n, seq, amount, sc))
    for k in range(nout):
        val = ex.int('val%d' % k, 0, 21*10**14); ls = ex.choose('ls%d' % k, [0, 1, 2, 25]); spk = ex.bytes('spk%d' % k, ls)
        o = Obj(); o.value = val; o.lock_script = spk
        t.outputs.append(o); outs.append((val, spk))
    sid = ex.choose('sign_id', list(range(nin)))
    try:
        got = t.signature_segwit(sid, 1)
    except T.TransactionError:
        return
    Href = H
    want = ref_bip143(Href, version, [(a, b, c) for a, b, c, d, e in ins], outs, locktime, sid, ins[sid][4], ins[sid][3])
    for a in H.axioms(): ex.pc.append(a)
    ex.check(len(got) == len(want) and got == want, 'bip143 preimage')

def run(h, **kw):
    t=time.time(); ex = Explorer(**kw)
    try:
        st = ex.explore(h)
    except symx.EngineLimit as e:
        print(h.__name__, 'INCONCLUSIVE', e); return
    v = st['violations']
    print(h.__name__, {k:x for k,x in st.items() if k!='violations'}, 'nviol', len(v), [ (w, {k:c[k] for k in c if k.startswith(('ls','spk','lsc','sc','nin','nout','sign'))}) for w,c in v[:3]], 'wall %.1fs'%(time.time()-t))
run(h_bip143, W=72)
