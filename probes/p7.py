import bitcoinlib.services.services as SV
from bitcoinlib import services as SP
from bitcoinlib.networks import Network

OUT = {}
class FakeClient:
    def __init__(self, network, url, denominator, api_key, coin, overrides, timeout, blockcount, strict, wallet_name):
        self.name = url
    def getdata(self, arg):
        o = OUT[self.name]
        if o == 0:
            return ('answer', self.name)
        if o == 1:
            raise SV.ServiceError("boom")
        if o == 2:
            return False
        raise AttributeError("no")
class FakeMod:
    FakeClient = FakeClient
SP.fakeprov = FakeMod

import datetime as _dt
class NullLog:
    def __getattr__(self, n): return lambda *a, **k: None
SV._logger = NullLog()
class FakeDT:
    @staticmethod
    def now(): return _dt.datetime(2020, 1, 1)
SV.datetime = FakeDT
class Rnd:
    def random(self): return 0.5
    def shuffle(self, l): pass

def run(o0: int, o1: int, o2: int, p0: int, p1: int, p2: int, max_errors: int, max_providers: int):
    """
    pre: 0 <= o0 <= 3 and 0 <= o1 <= 3 and 0 <= o2 <= 3
    pre: 0 <= p0 <= 2 and 0 <= p1 <= 2 and 0 <= p2 <= 2 and p0 != p1 and p1 != p2 and p0 != p2
    pre: 1 <= max_errors <= 4 and 1 <= max_providers <= 2
    post: _
    """
    outs = [o0, o1, o2]; prios = [p0, p1, p2]
    for i in range(3):
        OUT['u%d' % i] = outs[i]
    srv = SV.Service.__new__(SV.Service)
    srv.network = Network('bitcoinlib_test')
    srv.providers = {'prov%d' % i: dict(provider='fakeprov', client_class='FakeClient', url='u%d' % i, denominator=1,
                                        api_key='', provider_coin_id='', network_overrides=None, priority=prios[i])
                     for i in range(3)}
    srv.max_providers = max_providers; srv.max_errors = max_errors; srv.ignore_priority = False
    srv.timeout = 5; srv._blockcount = None; srv.strict = True; srv.wallet_name = None
    srv.results = {}; srv.errors = {}; srv.resultcount = 0; srv.complete = None; srv.execution_time = None
    SV.random = Rnd()
    try:
        res = srv._provider_execute('getdata', 1)
        raised = False
    except SV.ServiceError:
        res = None; raised = True
    order = sorted(range(3), key=lambda i: -prios[i])
    oks = [i for i in order if outs[i] == 0]
    # (1) no fabrication
    if not raised and res is not False:
        if not (isinstance(res, tuple) and res[0] == 'answer' and int(res[1][1:]) in oks):
            return False
    # (2) availability: an ok provider preceded by fewer than max_errors failing providers must be used
    if oks:
        first = oks[0]
        fails_before = sum(1 for i in order[:order.index(first)] if outs[i] in (1, 2))
        if fails_before < max_errors:
            if raised or res is False:
                return False
            if res != ('answer', 'u%d' % first):
                return False
    else:
        if not (raised or res is False):
            return False
    return True
