import bitcoinlib.transactions as T

class O:
    def __init__(self, v, change): self.value = v; self.change = change
class I:
    def __init__(self, v): self.value = v

def run(in0: int, pay: int, ch0: int, ch1: int, fee_arg: int, extra: int, vsize: int) -> bool:
    """
    pre: 0 < pay <= 21 * 10**14 and 0 <= ch0 <= 21 * 10**14 and 0 <= ch1 <= 21 * 10**14
    pre: 100 <= vsize <= 100000 and 0 <= fee_arg <= 10**9 and 0 <= extra <= 10**9
    pre: in0 == pay + ch0 + ch1 + 1000 + vsize
    post: _
    """
    t = T.Transaction.__new__(T.Transaction)
    t.inputs = [I(in0)]
    outs = [O(pay, False), O(ch0, True), O(ch1, True)]
    t.outputs = list(outs)
    t.fee = in0 - pay - ch0 - ch1
    old_fee = t.fee
    t.vsize = vsize; t.size = vsize; t.coinbase = False
    t.sign_and_update = lambda index_n=None: T.Transaction.update_totals(t)
    try:
        T.Transaction.bumpfee(t, fee=fee_arg, extra_fee=extra)
    except T.TransactionError:
        # refusal: nothing may have changed
        return [o.value for o in t.outputs] == [pay, ch0, ch1] and t.fee == old_fee
    tot_out = sum(o.value for o in t.outputs)
    ok = (in0 == tot_out + t.fee)                    # conservation with the reported fee
    ok = ok and all(o.value >= 0 for o in t.outputs)  # no negative output
    ok = ok and outs[0] in t.outputs and outs[0].value == pay   # recipient untouched
    ok = ok and t.fee >= old_fee + vsize              # fee really increased by at least the minimum
    return ok
