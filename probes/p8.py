import bitcoinlib.transactions as T

class NullLog:
    def __getattr__(self, n): return lambda *a, **k: None
T._logger = NullLog()

class FKey:
    def __init__(self, i, priv):
        self.i = i; self.is_private = priv; self.public_byte = bytes([2, i]); self.public_hex = self.public_byte.hex()
        self.private_byte = bytes([9, i]) if priv else None; self.compressed = True
    def __eq__(self, o): return isinstance(o, FKey) and o.i == self.i
    def __hash__(self): return self.i
    def public(self): return FKey(self.i, False)

class FSig:
    def __init__(self, key, digest): self.public_key = key.public(); self.digest = digest
    def as_der_encoded(self): return bytes([0x30, self.public_key.i])

def run(m: int, n: int, c0: int, c1: int, c2: int) -> bool:
    """
    pre: 1 <= n <= 3 and 1 <= m <= n
    pre: -1 <= c0 < n and -1 <= c1 < n and -1 <= c2 < n
    post: _
    """
    # three successive sign() calls; call j signs with key c_j (or nothing if -1)
    t = T.Transaction.__new__(T.Transaction)
    inp = T.Input.__new__(T.Input)
    inp.keys = [FKey(i, False) for i in range(n)]
    inp.signatures = []; inp.sigs_required = m; inp.script_type = 'p2sh_multisig'; inp.index_n = 0
    inp.compressed = True; inp.witness_type = 'legacy'; inp.valid = None
    inp.update_scripts = lambda hash_type=1: True
    t.inputs = [inp]
    t.signature_hash = lambda *a, **k: b'D'
    o_sign, o_verify, o_key, o_hd = T.sign, T.verify, T.Key, T.HDKey
    T.sign = lambda txid, key, hash_type=1: FSig(key, txid)
    T.verify = lambda h, sig, key: sig.public_key.i == key.i and sig.digest == h
    T.Key = FKey; T.HDKey = FKey
    try:
        signers = set()
        for c in (c0, c1, c2):
            if c >= 0:
                T.Transaction.sign(t, keys=[FKey(c, True)], index_n=0)
                signers.add(c)
        res = T.Input.verify(inp, b'D')
    finally:
        T.sign, T.verify, T.Key, T.HDKey = o_sign, o_verify, o_key, o_hd
    return res == (len(signers) >= m)
