import time, sys, ast, inspect, textwrap
sys.path.insert(0, __import__('os').path.dirname(__import__('os').path.abspath(__file__)))
import symx, z3
from symx import *
import bitcoinlib.encoding as E
E.int = IntShimC; E.bytes = BytesShimC; E.ord = ord_shim
GEN = [0x3b6a57b2, 0x26508e6d, 0x1ea119fa, 0x3d4233dd, 0x2a1462b3]

def extract_step(fn, state_var, elem_var):
    """fn must have the shape: <inits>; for <elem_var> in <arg>: BODY; return <state_var>"""
    src = textwrap.dedent(inspect.getsource(fn)); tree = ast.parse(src); f = tree.body[0]
    body = [s for s in f.body if not (isinstance(s, ast.Expr) and isinstance(s.value, ast.Constant))]
    loops = [s for s in body if isinstance(s, ast.For)]
    assert len(loops) == 1 and isinstance(body[-1], ast.Return) and body[-1].value.id == state_var
    loop = loops[0]; assert loop.target.id == elem_var and not loop.orelse
    inits = body[:body.index(loop)]
    init_state = [s for s in inits if isinstance(s, ast.Assign) and s.targets[0].id == state_var]
    assert len(init_state) == 1
    others = [s for s in inits if s is not init_state[0]]
    step = ast.FunctionDef(name='step', args=ast.arguments(posonlyargs=[], args=[ast.arg(state_var), ast.arg(elem_var)], kwonlyargs=[], kw_defaults=[], defaults=[]),
                           body=others + loop.body + [ast.Return(ast.Name(state_var, ast.Load()))], decorator_list=[], type_params=[])
    mod = ast.Module(body=[step], type_ignores=[]); ast.fix_missing_locations(mod)
    ns = dict(fn.__globals__); exec(compile(mod, '<step of %s>' % fn.__name__, 'exec'), ns)
    init_val = eval(compile(ast.Expression(init_state[0].value), '<init>', 'eval'), dict(fn.__globals__))
    return ns['step'], init_val

def ref_step_term(chk, v):
    top = z3.LShR(chk, 25)
    c = ((chk & 0x1ffffff) << 5) ^ v
    for i in range(5):
        c = c ^ z3.If(z3.Extract(i, i, top) == 1, z3.BitVecVal(GEN[i], chk.size()), z3.BitVecVal(0, chk.size()))
    return c

def h_polymod_step(ex):
    step, init = extract_step(E._bech32_polymod, 'chk', 'value')
    ex.check(init == 1, 'init state')
    chk = ex.int('chk', 0, 2**30 - 1); v = ex.int('v', 0, 31)
    out = step(chk, v)
    ex.check(SBool(out.t == ref_step_term(chk.t, v.t)) if isinstance(out, SInt) else False, 'step')
    ex.check((out >= 0) & (out < 2**30), 'state stays 30 bit')

def run(h, **kw):
    t=time.time(); ex = Explorer(**kw)
    try:
        st = ex.explore(h)
    except symx.EngineLimit as e:
        print(h.__name__, 'INCONCLUSIVE', e, ex.stats); return
    v = st['violations']
    print(h.__name__, {k:x for k,x in st.items() if k!='violations'}, 'nviol', len(v), v[:4], 'wall %.1fs'%(time.time()-t))
run(h_polymod_step, W=48)
