import time, sys
sys.path.insert(0, __import__('os').path.dirname(__import__('os').path.abspath(__file__)))
import symx, z3
from symx import Explorer, SInt, SBytes, IntShimC, BytesShimC
import bitcoinlib.encoding as E
import bitcoinlib.scripts as S
E.int = IntShimC; S.int = IntShimC; E.bytes = BytesShimC; S.bytes = BytesShimC

def ref_num(b):
    """consensus CScriptNum decode of SBytes (len<=4)"""
    if len(b) == 0: return 0
    r = IntShimC.from_bytes(b[:-1] + SBytes([b[-1] & 0x7f]), 'little')
    neg = (b[-1] & 0x80) != 0
    return r, neg

def sval(b):
    if len(b) == 0: return 0
    r, neg = ref_num(b)
    # signed value as SInt via ITE
    t = z3.If(symx._b(neg), -symx._bv(r), symx._bv(r))
    hi = (1 << (8*len(b)-1)) - 1
    return SInt(t, -hi, hi)

def ref_encode_ok(res, val):
    """res (SBytes/bytes) is a script-number encoding of val"""
    return sval(res) == val

def mk_binop(opname, f):
    def h(ex):
        la = ex.choose('la', [0,1,2,3,4]); lb = ex.choose('lb', [0,1,2,3,4])
        a = ex.bytes('a', la); b = ex.bytes('b', lb)     # a below b (b is top)
        st = S.Stack([a, b])
        ok = getattr(st, opname)()
        ex.check(ok is True, 'op succeeds on <=4 byte operands')
        want = f(sval(a), sval(b))
        top = st[-1]
        if isinstance(top, bytes): top = SBytes(list(top))
        ex.check(len(st) == 1, 'stack depth')
        ex.check(sval(top) == want if not isinstance(want, symx.SBool) else ((sval(top) != 0) == want), opname)
    h.__name__ = 'h_' + opname
    return h

def run(h, **kw):
    t=time.time(); ex = Explorer(**kw)
    try:
        st = ex.explore(h)
    except symx.EngineLimit as e:
        print(h.__name__, 'INCONCLUSIVE', e); return
    v = st['violations']
    print(h.__name__, {k:x for k,x in st.items() if k!='violations'}, 'nviol', len(v), v[:1], 'wall %.1fs'%(time.time()-t))

run(mk_binop('op_add', lambda a,b: a+b), W=48)
run(mk_binop('op_sub', lambda a,b: a-b), W=48)
run(mk_binop('op_numlessthan', lambda a,b: a<b), W=48)
run(mk_binop('op_min', lambda a,b: SInt(z3.If(a.t<b.t, a.t, b.t), -2**31, 2**31) if isinstance(a,SInt) and isinstance(b,SInt) else min(a,b)), W=48)
