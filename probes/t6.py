import time, sys
sys.path.insert(0, __import__('os').path.dirname(__import__('os').path.abspath(__file__)))
import symx, z3
from symx import *
import bitcoinlib.encoding as E
E.int = IntShimC; E.bytes = BytesShimC; E.ord = ord_shim
GEN = [0x3b6a57b2, 0x26508e6d, 0x1ea119fa, 0x3d4233dd, 0x2a1462b3]

def polymod_summary(values):
    """branch-free reference fold (justified by the step lemma)"""
    W = symx._cur.W
    chk = z3.BitVecVal(1, W)
    for v in values:
        vt = symx._bv(v)
        top = z3.LShR(chk, 25)
        chk = ((chk & 0x1ffffff) << 5) ^ vt
        for i in range(5):
            chk = chk ^ z3.If(z3.Extract(i, i, top) == 1, z3.BitVecVal(GEN[i], W), z3.BitVecVal(0, W))
    chk = z3.simplify(chk)
    if z3.is_bv_value(chk): return chk.as_long()
    return SInt(chk, 0, 2**30 - 1)
E._bech32_polymod = polymod_summary
E.code_strings['bech32'] = SymTable(E.code_strings['bech32'])

class ChrTab:
    pass
def chr_shim(x):
    if isinstance(x, SInt): return SChar(x)
    return chr(x)
E.chr = chr_shim
# _array_to_codestring builds a str with += chr(...): make it SStr-aware
def _array_to_codestring(array, base):
    codebase = E.code_strings[base]
    cs = SStr([])
    for i in array:
        c = codebase[i]
        cs = cs + (SChar(c) if isinstance(c, SInt) else chr(c))
    return cs
E._array_to_codestring = _array_to_codestring   # (prototype shortcut; real engine: str shim so that "" + SChar works)

def h_bech32(ex, L):
    s = SStr([ord('b'), ord('c'), ord('1')] + [ex.int('c%d' % i, 0, 255) for i in range(3, L)])
    try:
        out = E.addr_bech32_to_pubkeyhash(s, include_witver=True)
    except E.EncodingError:
        return
    # accepted: canonical?
    low = s.lower()
    pos = low.rfind('1')
    hrp = low[:pos]
    witb = out[0]; prog = out[2:]
    witver = 0 if (witb == 0) else witb - 0x50
    if isinstance(witver, SInt): witver = witver.concretize()
    hrp_str = hrp if isinstance(hrp, str) else ''.join(chr(x.concretize()) if isinstance(x, SInt) else chr(x) for x in hrp.c)
    re = E.pubkeyhash_to_addr_bech32(prog if len(prog) in (20, 32, 40) else out, prefix=hrp_str, witver=witver)
    if isinstance(re, str): re = SStr([ord(c) for c in re])
    ex.check(len(re) == len(low) and re == low, 'accepted => canonical')

def run(h, *a, **kw):
    t=time.time(); ex = Explorer(**kw)
    try:
        st = ex.explore(lambda e: h(e, *a))
    except symx.EngineLimit as e:
        print(h.__name__, a, 'INCONCLUSIVE', e, ex.stats); return
    v = st['violations']
    print(h.__name__, a, {k:x for k,x in st.items() if k!='violations'}, 'nviol', len(v), v[:2], 'wall %.1fs'%(time.time()-t))
run(h_bech32, int(sys.argv[1]), W=48)
