import time, sys
sys.path.insert(0, __import__('os').path.dirname(__import__('os').path.abspath(__file__)))
import symx, z3
from symx import Explorer, SInt, SBytes, IntShimC, BytesShimC, SBytesIO
import bitcoinlib.encoding as E
import bitcoinlib.scripts as S
E.int = IntShimC; S.int = IntShimC; E.bytes = BytesShimC; S.bytes = BytesShimC; S.BytesIO = SBytesIO

def h_script_rt(ex):
    n = ex.choose('n', [1, 2])
    raw = ex.bytes('raw', n)
    try:
        s = S.Script.parse_bytes(raw)
    except S.ScriptError:
        return
    out = s.serialize()
    if isinstance(out, bytes): out = SBytes(list(out))
    ex.check(len(out) == n and out == raw, 'parse->serialize identity')

def run(h, **kw):
    t=time.time(); ex = Explorer(**kw)
    try:
        st = ex.explore(h)
    except symx.EngineLimit as e:
        print(h.__name__, 'INCONCLUSIVE', e, ex.stats); return
    v = st['violations']
    print(h.__name__, {k:x for k,x in st.items() if k!='violations'}, 'nviol', len(v), v[:4], 'wall %.1fs'%(time.time()-t))
run(h_script_rt, W=40)
