"""Prototype: proxy-based symbolic execution of real Python functions with z3 bit-vectors."""
import z3, time, numbers, sys

W = 136  # default signed width
DEBUG = bool(__import__('os').environ.get('SYMX_DEBUG'))


class EngineLimit(Exception):
    pass


class PathAbort(BaseException):
    pass


_cur = None  # current explorer


def _bv(v, w=None):
    w = w or _cur.W
    if isinstance(v, SInt):
        return v.t
    if isinstance(v, bool):
        v = int(v)
    if isinstance(v, int):
        lim = 1 << (w - 1)
        if not (-lim <= v < lim):
            raise EngineLimit("constant out of width")
        return z3.BitVecVal(v, w)
    raise TypeError(type(v))


def _rng(v):
    if isinstance(v, SInt):
        return v.lo, v.hi
    v = int(v)
    return v, v


class SBool:
    def __init__(self, t):
        self.t = t

    def __bool__(self):
        return _cur.branch(self.t)

    def __and__(self, o):
        return SBool(z3.And(self.t, _b(o)))

    __rand__ = __and__

    def __or__(self, o):
        return SBool(z3.Or(self.t, _b(o)))

    __ror__ = __or__

    def __invert__(self):
        return SBool(z3.Not(self.t))

    def __eq__(self, o):
        return SBool(self.t == _b(o))

    def __hash__(self):
        return id(self)


def _b(o):
    if isinstance(o, SBool):
        return o.t
    return z3.BoolVal(bool(o))


def mk_bool(t):
    t = z3.simplify(t)
    if z3.is_true(t):
        return True
    if z3.is_false(t):
        return False
    return SBool(t)


class SInt:
    """Signed bit-vector of width W with conservative interval [lo, hi] (no wrap-around allowed)."""

    def __init__(self, t, lo, hi):
        lim = 1 << (_cur.W - 1)
        if lo < -lim or hi >= lim:
            raise EngineLimit("interval [%d,%d] exceeds width %d" % (lo, hi, _cur.W))
        self.t, self.lo, self.hi = t, lo, hi

    # --- arithmetic
    def __add__(self, o):
        if not isinstance(o, (int, SInt)):
            return NotImplemented
        l, h = _rng(o)
        return SInt(self.t + _bv(o), self.lo + l, self.hi + h)

    __radd__ = __add__

    def __sub__(self, o):
        if not isinstance(o, (int, SInt)):
            return NotImplemented
        l, h = _rng(o)
        return SInt(self.t - _bv(o), self.lo - h, self.hi - l)

    def __rsub__(self, o):
        l, h = _rng(o)
        return SInt(_bv(o) - self.t, l - self.hi, h - self.lo)

    def __neg__(self):
        return SInt(-self.t, -self.hi, -self.lo)

    def __abs__(self):
        return SInt(z3.If(self.t < 0, -self.t, self.t), 0 if self.lo <= 0 <= self.hi else min(abs(self.lo), abs(self.hi)),
                    max(abs(self.lo), abs(self.hi)))

    def __mul__(self, o):
        if not isinstance(o, (int, SInt)):
            return NotImplemented
        l, h = _rng(o)
        c = [self.lo * l, self.lo * h, self.hi * l, self.hi * h]
        return SInt(self.t * _bv(o), min(c), max(c))

    __rmul__ = __mul__

    def __floordiv__(self, o):
        if isinstance(o, int) and o > 0:
            # floor division by positive constant
            q = z3.If(self.t >= 0, self.t / o, -((-self.t + (o - 1)) / o))
            return SInt(q, self.lo // o, self.hi // o)
        raise EngineLimit("floordiv by non-constant")

    def __mod__(self, o):
        if isinstance(o, int) and o > 0:
            q = self // o
            return SInt(self.t - q.t * o, 0, o - 1)
        raise EngineLimit("mod by non-constant")

    def __lshift__(self, o):
        if isinstance(o, int):
            return self * (1 << o)
        raise EngineLimit("shift by symbolic")

    def __rshift__(self, o):
        if isinstance(o, int):
            return SInt(self.t >> o, self.lo >> o, self.hi >> o)
        raise EngineLimit("shift by symbolic")

    def __and__(self, o):
        if isinstance(o, int) and o >= 0:
            return SInt(self.t & o, 0, o)
        if isinstance(o, SInt) and self.lo >= 0 and o.lo >= 0:
            return SInt(self.t & o.t, 0, min(self.hi, o.hi))
        raise EngineLimit("and")

    __rand__ = __and__

    def __or__(self, o):
        l, h = _rng(o)
        if self.lo >= 0 and l >= 0:
            bits = max(self.hi.bit_length(), h.bit_length())
            return SInt(self.t | _bv(o), max(self.lo, l), (1 << bits) - 1)
        raise EngineLimit("or")

    __ror__ = __or__

    def __xor__(self, o):
        l, h = _rng(o)
        if self.lo >= 0 and l >= 0:
            bits = max(self.hi.bit_length(), h.bit_length())
            return SInt(self.t ^ _bv(o), 0, (1 << bits) - 1)
        raise EngineLimit("xor")

    __rxor__ = __xor__

    # --- comparisons
    def __lt__(self, o):
        return mk_bool(self.t < _bv(o))

    def __le__(self, o):
        return mk_bool(self.t <= _bv(o))

    def __gt__(self, o):
        return mk_bool(self.t > _bv(o))

    def __ge__(self, o):
        return mk_bool(self.t >= _bv(o))

    def __eq__(self, o):
        if not isinstance(o, (int, SInt)):
            return False
        return mk_bool(self.t == _bv(o))

    def __ne__(self, o):
        if not isinstance(o, (int, SInt)):
            return True
        return mk_bool(self.t != _bv(o))

    def __hash__(self):
        return id(self)

    def __bool__(self):
        return bool(self != 0)

    def __index__(self):
        return self.concretize()

    __int__ = __index__

    def concretize(self):
        """Fork over every feasible concrete value (solver-enumerated)."""
        return _cur.concretize(self)

    # --- int API used by the code under analysis
    def bit_length(self):
        a = abs(self)
        n = max(abs(self.lo), abs(self.hi)).bit_length()
        t = z3.BitVecVal(0, _cur.W)
        for k in range(1, n + 1):
            t = z3.If(a.t >= (1 << (k - 1)), z3.BitVecVal(k, _cur.W), t)
        return SInt(t, 0, n)

    def to_bytes(self, length, byteorder='big', signed=False):
        if isinstance(length, SInt):
            length = length.concretize()
        fits = (self >= 0) & (self < (1 << (8 * length))) if not signed else True
        if not fits:
            raise OverflowError("int too big to convert")
        bs = [z3.Extract(8 * i + 7, 8 * i, self.t) for i in range(length)]  # little endian
        if byteorder == 'big':
            bs.reverse()
        return SBytes(bs)


numbers.Number.register(SInt)
numbers.Integral.register(SInt)


def _byte(x):
    """normalise a byte element to z3 BV8 or python int"""
    if isinstance(x, int):
        return x
    if isinstance(x, SInt):
        return z3.Extract(7, 0, x.t)
    return x


class SBytes:
    """bytes of concrete length whose elements are python ints or z3 BV8 terms"""

    def __init__(self, items):
        self.b = [(_byte(x)) for x in items]

    def __len__(self):
        return len(self.b)

    def _elt(self, x):
        if isinstance(x, int):
            return x
        x = z3.simplify(x)
        if z3.is_bv_value(x):
            return x.as_long()
        return SInt(z3.ZeroExt(_cur.W - 8, x), 0, 255)

    def __getitem__(self, i):
        if isinstance(i, slice):
            return SBytes(self.b[i])
        if isinstance(i, SInt):
            i = i.concretize()
        return self._elt(self.b[i])

    def __iter__(self):
        return (self._elt(x) for x in self.b)

    def __add__(self, o):
        if isinstance(o, (bytes, bytearray)):
            return SBytes(self.b + list(o))
        if isinstance(o, SBytes):
            return SBytes(self.b + o.b)
        return NotImplemented

    def __radd__(self, o):
        if isinstance(o, (bytes, bytearray)):
            return SBytes(list(o) + self.b)
        return NotImplemented

    def __eq__(self, o):
        if isinstance(o, (bytes, bytearray)):
            o = SBytes(list(o))
        if not isinstance(o, SBytes):
            return False
        if len(o) != len(self):
            return False
        return mk_bool(z3.And([_t8(a) == _t8(b) for a, b in zip(self.b, o.b)]))

    def __ne__(self, o):
        r = self == o
        if isinstance(r, bool):
            return not r
        return ~r

    def __hash__(self):
        return id(self)

    def __bool__(self):
        return len(self.b) > 0

    def __bytes__(self):
        raise EngineLimit("bytes() realisation of symbolic bytes")

    def decode(self, enc='utf-8'):
        ascii_ = mk_bool(z3.And([z3.ULT(_t8(x), 128) for x in self.b])) if self.b else True
        if not ascii_:
            raise UnicodeDecodeError('utf-8', b'', 0, 1, 'non-ascii (model)')
        return SStr([self._elt(x) for x in self.b])

    def hex(self):
        raise EngineLimit('hex of symbolic bytes')

    def startswith(self, p):
        if len(p) > len(self):
            return False
        return self[:len(p)] == p

    def term(self):
        return [_t8(x) for x in self.b]


def _t8(x):
    return z3.BitVecVal(x, 8) if isinstance(x, int) else x


class IntShim(type):
    """replacement for the name `int` in analysed modules"""
    def __instancecheck__(cls, o):
        return isinstance(o, (int, SInt)) if cls is IntShimC else type.__instancecheck__(cls, o)


class IntShimC(metaclass=IntShim):
    def __new__(cls, x=0, base=None):
        if isinstance(x, SInt):
            return x
        return int(x) if base is None else int(x, base)

    @staticmethod
    def from_bytes(b, byteorder='big', signed=False):
        if isinstance(b, SBytes):
            items = b.b if byteorder == 'little' else b.b[::-1]
            if not items:
                return 0
            if all(isinstance(x, int) for x in items):
                return int.from_bytes(bytes(items), 'little')
            t = z3.Concat([_t8(x) for x in reversed(items)]) if len(items) > 1 else _t8(items[0])
            n = 8 * len(items)
            if n >= _cur.W:
                raise EngineLimit("from_bytes too wide")
            return SInt(z3.ZeroExt(_cur.W - n, t), 0, (1 << n) - 1)
        return int.from_bytes(b, byteorder, signed=signed)

    @staticmethod
    def to_bytes(x, length, byteorder='big'):
        return x.to_bytes(length, byteorder)


class Explorer:
    def __init__(self, W=136, max_paths=100000, timeout_ms=60000):
        self.W = W
        self.max_paths = max_paths
        self.timeout_ms = timeout_ms
        self.stats = dict(paths=0, queries=0, solver_s=0.0, violations=[], aborted=0, unknown=0)

    # --- symbolic inputs
    def int(self, name, lo, hi):
        v = SInt(z3.BitVec(name, self.W), lo, hi)
        self.pc.append(z3.And(v.t >= lo, v.t <= hi))
        self.model = None
        self.inputs[name] = v
        return v

    def bool(self, name):
        v = SBool(z3.Bool(name))
        self.inputs[name] = v
        return v

    def bytes(self, name, n):
        v = SBytes([z3.BitVec('%s_%d' % (name, i), 8) for i in range(n)])
        self.inputs[name] = v
        return v

    def choose(self, name, options):
        """multi-way fork decided by the scheduler"""
        options = list(options)
        for o in options[:-1]:
            if self.branch(z3.Bool('%s_is_%r_%d' % (name, o, len(self.trace)))):
                self.choices[name] = o
                return o
        self.choices[name] = options[-1]
        return options[-1]

    def assume(self, c):
        if isinstance(c, SBool):
            self.pc.append(c.t)
            self.model = None
            if self._check(self.pc) != z3.sat:
                raise PathAbort()
        elif not c:
            raise PathAbort()

    # --- path scheduling
    def _check(self, assertions):
        s = z3.Solver()
        s.set('timeout', self.timeout_ms)
        s.add(*assertions)
        t0 = time.time()
        r = s.check()
        self.stats['queries'] += 1
        self.stats['solver_s'] += time.time() - t0
        self._last = s
        return r

    def branch(self, cond):
        i = len(self.trace)
        if i < len(self.prefix):
            d = self.prefix[i]
            self.model = None          # a replayed decision may contradict a model cached by concretize()
        else:
            # model-guided: the last model satisfies the path condition, so it decides one side for free
            side = None
            m = getattr(self, 'model', None)
            if m is not None:
                if DEBUG:
                    for c in self.pc:
                        assert z3.is_true(m.eval(c, model_completion=True)), ('stale model', c)
                v = m.eval(cond, model_completion=True)
                if z3.is_true(v):
                    side = True
                elif z3.is_false(v):
                    side = False
            if side is None:
                rt = self._check(self.pc + [cond])
                if rt == z3.sat:
                    self.model = self._last.model()
                rf = self._check(self.pc + [z3.Not(cond)]) if rt != z3.unknown else z3.unknown
            elif side:
                rt = z3.sat
                rf = self._check(self.pc + [z3.Not(cond)])
            else:
                rf = z3.sat
                rt = self._check(self.pc + [cond])
            if rt == z3.unknown or rf == z3.unknown:
                self.stats['unknown'] += 1
                raise EngineLimit("solver unknown at branch")
            if rt == z3.sat and rf == z3.sat:
                self.pending.append(self.trace + [False])
                d = True
            elif rt == z3.sat:
                d = True
            elif rf == z3.sat:
                d = False
            else:
                raise PathAbort()
            if side is not None and d != side:
                self.model = self._last.model()     # we follow the side the solver just found
        self.trace.append(d)
        self.pc.append(cond if d else z3.Not(cond))
        return d

    def concretize(self, v):
        r = self._check(self.pc)
        if r != z3.sat:
            raise PathAbort()
        self.model = self._last.model()
        val = self.model.eval(v.t, model_completion=True).as_signed_long()
        if self.branch(v.t == val):
            return val
        return self.concretize(v)

    def check(self, prop, what=''):
        """obligation at the end of a path: prop must hold for every model of the path condition"""
        if isinstance(prop, bool):
            if prop:
                return
            r = self._check(self.pc)
        else:
            r = self._check(self.pc + [z3.Not(_b(prop))])
        if r == z3.unknown:
            self.stats['unknown'] += 1
            raise EngineLimit("solver unknown at obligation")
        if r == z3.sat:
            m = self._last.model()
            cex = {}
            for k, v in self.inputs.items():
                if isinstance(v, SInt):
                    cex[k] = m.eval(v.t, model_completion=True).as_signed_long()
                elif isinstance(v, SBool):
                    cex[k] = bool(m.eval(v.t, model_completion=True))
                elif isinstance(v, SBytes):
                    cex[k] = bytes(m.eval(_t8(x), model_completion=True).as_long() for x in v.b)
            cex.update(self.choices)
            self.stats['violations'].append((what, cex))

    def explore(self, fn):
        global _cur
        _cur = self
        self.pending = [[]]
        while self.pending:
            if self.stats['paths'] >= self.max_paths:
                raise EngineLimit("path budget")
            self.prefix = self.pending.pop()
            self.trace, self.pc, self.inputs, self.choices = [], [], {}, {}
            self.model = None
            try:
                fn(self)
            except PathAbort:
                self.stats['aborted'] += 1
            self.stats['paths'] += 1
        return self.stats


class BytesShim(type):
    def __instancecheck__(cls, o):
        return isinstance(o, (bytes, SBytes, SymTable))


class BytesShimC(metaclass=BytesShim):
    def __new__(cls, x=b'', *a):
        if isinstance(x, SBytes):
            return x
        if isinstance(x, SStr):
            return SBytes(x.c)
        if hasattr(x, '__bytes__') and not isinstance(x, bytes):
            r = x.__bytes__()
            return r
        if isinstance(x, (list, tuple)) and any(isinstance(i, SInt) for i in x):
            return SBytes(list(x))
        return bytes(x, *a)

    @staticmethod
    def fromhex(x):
        if not isinstance(x, SStr):
            return bytes.fromhex(x)
        def ishex(c):
            return z3.Or(z3.And(c >= 48, c <= 57), z3.And(c >= 97, c <= 102), z3.And(c >= 65, c <= 70))
        def isws(c):
            return z3.Or(c == 32, z3.And(c >= 9, c <= 13))
        cs = [_bv(c) for c in x.c]
        if mk_bool(z3.And([ishex(c) for c in cs])) if cs else True:
            if len(cs) % 2:
                raise ValueError('odd hex')
            def nib(c):
                return z3.If(c <= 57, c - 48, z3.If(c >= 97, c - 87, c - 55))
            out = []
            for i in range(0, len(cs), 2):
                out.append(SInt(nib(cs[i]) * 16 + nib(cs[i + 1]), 0, 255))
            return SBytes(out)
        if mk_bool(z3.Or([isws(c) for c in cs])):
            _cur.stats['cuts'] = _cur.stats.get('cuts', 0) + 1
            raise PathAbort()      # cut: whitespace inside a hex-looking buffer is outside the claim
        raise ValueError('non-hex')


class SBytesIO:
    """pure-Python stand-in for io.BytesIO over bytes / SBytes"""
    def __init__(self, data=b''):
        self.d = data if isinstance(data, SBytes) else SBytes(list(data))
        self.p = 0

    def read(self, n=-1):
        if isinstance(n, SInt):
            n = n.concretize()
        if n is None or n < 0:
            n = len(self.d) - self.p
        r = self.d[self.p:self.p + n]
        self.p = min(len(self.d), self.p + n)
        if all(isinstance(x, int) for x in r.b):
            return bytes(r.b)
        return r

    def tell(self):
        return self.p

    def seek(self, off, whence=0):
        if whence == 0:
            self.p = off
        elif whence == 1:
            self.p += off
        else:
            self.p = len(self.d) + off
        return self.p

    def __bool__(self):
        return True


# ---------------------------------------------------------------- strings
class SChar:
    """one character: code point as SInt/int"""
    def __init__(self, c):
        self.c = c

    def __eq__(self, o):
        if isinstance(o, str) and len(o) == 1:
            return self.c == ord(o)
        if isinstance(o, SChar):
            return self.c == o.c
        return False

    def __ne__(self, o):
        r = self == o
        return (not r) if isinstance(r, bool) else ~r

    def __hash__(self):
        return id(self)

    def __len__(self):
        return 1


def _cp(x):
    return x.c if isinstance(x, SChar) else ord(x)


class SStr:
    def __init__(self, cps):
        self.c = list(cps)          # ints or SInt code points

    def __len__(self):
        return len(self.c)

    def __iter__(self):
        return (SChar(x) if isinstance(x, SInt) else chr(x) for x in self.c)

    def __getitem__(self, i):
        if isinstance(i, slice):
            if any(isinstance(v, SInt) for v in (i.start, i.stop)):
                i = slice(i.start.concretize() if isinstance(i.start, SInt) else i.start,
                          i.stop.concretize() if isinstance(i.stop, SInt) else i.stop, i.step)
            r = self.c[i]
            if all(isinstance(x, int) for x in r):
                return ''.join(chr(x) for x in r)
            return SStr(r)
        x = self.c[i]
        return SChar(x) if isinstance(x, SInt) else chr(x)

    def _map(self, f):
        return SStr([f(x) for x in self.c])

    def lower(self):
        def f(x):
            if isinstance(x, int):
                return ord(chr(x).lower())
            return SInt(z3.If(z3.And(x.t >= 65, x.t <= 90), x.t + 32, x.t), 0, 255)
        return self._map(f)

    def upper(self):
        def f(x):
            if isinstance(x, int):
                return ord(chr(x).upper())
            return SInt(z3.If(z3.And(x.t >= 97, x.t <= 122), x.t - 32, x.t), 0, 255)
        return self._map(f)

    def __eq__(self, o):
        if isinstance(o, str):
            o = SStr([ord(ch) for ch in o])
        if not isinstance(o, SStr) or len(o) != len(self):
            return False
        return mk_bool(z3.And([_bv(a) == _bv(b) for a, b in zip(self.c, o.c)]))

    def __ne__(self, o):
        r = self == o
        return (not r) if isinstance(r, bool) else ~r

    def __hash__(self):
        return id(self)

    def __add__(self, o):
        if isinstance(o, str):
            return SStr(self.c + [ord(ch) for ch in o])
        if isinstance(o, SStr):
            return SStr(self.c + o.c)
        if isinstance(o, SChar):
            return SStr(self.c + [o.c])
        return NotImplemented

    def __radd__(self, o):
        if isinstance(o, str):
            return SStr([ord(ch) for ch in o] + self.c)
        return NotImplemented

    def rfind(self, ch):
        # fork over the position of the last occurrence (scheduler decides), -1 if none
        for i in range(len(self.c) - 1, -1, -1):
            if SChar(self.c[i]) == ch if isinstance(self.c[i], SInt) else chr(self.c[i]) == ch:
                return i
        return -1


def ord_shim(x):
    if isinstance(x, SChar):
        return x.c
    return ord(x)


class SymTable:
    """bytes-like constant table that can be searched / indexed with symbolic values"""
    def __init__(self, data):
        self.d = data

    def __len__(self):
        return len(self.d)

    def __iter__(self):
        return iter(self.d)

    def __getitem__(self, i):
        if isinstance(i, SInt):
            t = z3.BitVecVal(self.d[-1], _cur.W)
            for k in range(len(self.d) - 2, -1, -1):
                t = z3.If(i.t == k, z3.BitVecVal(self.d[k], _cur.W), t)
            if not ((i >= 0) & (i < len(self.d))):
                raise IndexError("index out of range")
            return SInt(t, min(self.d), max(self.d))
        return self.d[i]

    def index(self, v):
        if isinstance(v, SInt):
            found = mk_bool(z3.Or([v.t == c for c in self.d]))
            if not found:
                raise ValueError("subsection not found")
            t = z3.BitVecVal(0, _cur.W)
            for k in range(len(self.d) - 1, -1, -1):
                t = z3.If(v.t == self.d[k], z3.BitVecVal(k, _cur.W), t)
            return SInt(t, 0, len(self.d) - 1)
        return self.d.index(v)
