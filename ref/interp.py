"""Reference script interpreter for the opcodes bitcoinlib implements, transcribed from Bitcoin Core
src/script/interpreter.cpp (EvalScript, consensus rules only: no MINIMALDATA / policy flags).

Works on concrete values and on symx proxies.  Stack items are bytes/SBytes of concrete length.
Every op is `op(st, cx)`: mutates the python list `st`, returns False for script failure, anything else = ok.

`cx.dev` is a set of *deviation flags*.  With an empty set this is consensus.  Each flag switches ONE listed
known finding of bitcoinlib on (see /verif/known_findings.json), so that a check can state
"library == consensus  OR  library == consensus-with-the-listed-deviations" and still flag anything else."""
from symx.core import SBytes, SInt, SBool, s_and, s_or, s_not, s_ite, EngineLimit
from ref import wire

TRUE = b'\x01'
FALSE = b''


class Ctx:
    def __init__(self, dev=(), hashf=None, checksig=None, locktime=None, sequence=None, version=None):
        self.dev = set(dev)
        self.hashf = hashf            # hashf(name, data) -> digest
        self.checksig = checksig      # checksig(sig_item, key_item) -> bool/SBool
        self.locktime, self.sequence, self.version = locktime, sequence, version


def blen(x):
    return len(x)


def eqb(a, b):
    """byte-string equality including length"""
    if len(a) != len(b):
        return False
    if len(a) == 0:
        return True
    return a == b


def cast_to_bool(x, cx):
    if 'truthy-nonempty' in cx.dev:
        return len(x) != 0
    return wire.cast_to_bool(x)


def num(x, maxlen=4):
    """CScriptNum(vch, fRequireMinimal=false, nMaxNumSize): None if oversize"""
    if len(x) > maxlen:
        return None
    return wire.scriptnum_value(x)


def enc(v):
    """CScriptNum::serialize"""
    if isinstance(v, SBool):
        v = s_ite(v, 1, 0)
    if isinstance(v, bool):
        v = int(v)
    if v == 0:
        return b''
    neg = v < 0
    a = abs(v)
    n = 1
    while not (a < (1 << (8 * n))):
        n += 1
        if n > 9:
            raise EngineLimit("scriptnum too wide")
    bs = a.to_bytes(n, 'little')
    top = bs[n - 1]
    if (top & 0x80) != 0:
        return bs + (b'\x80' if neg else b'\x00')
    if neg:
        return bs[:n - 1] + SBytes([top | 0x80]) if not isinstance(top, int) else bs[:n - 1] + bytes([top | 0x80])
    return bs


def boolitem(c):
    """vchTrue / vchFalse for a (possibly symbolic) condition: forks"""
    return TRUE if c else FALSE


# ------------------------------------------------------------------------------------------------- ops

def op_nop(st, cx):
    return True


def op_verify(st, cx):
    if len(st) < 1:
        return False
    x = st.pop()
    if not cast_to_bool(x, cx):
        return False


def op_return(st, cx):
    return False


def op_2drop(st, cx):
    if len(st) < 2:
        return False
    st.pop()
    st.pop()


def op_2dup(st, cx):
    if len(st) < 2:
        return False
    st.extend([st[-2], st[-1]])


def op_3dup(st, cx):
    if len(st) < 3:
        return False
    st.extend([st[-3], st[-2], st[-1]])


def op_2over(st, cx):
    if len(st) < 4:
        return False
    st.extend([st[-4], st[-3]])


def op_2rot(st, cx):
    if len(st) < 6:
        return False
    a, b = st[-6], st[-5]
    del st[-6:-4]
    st.extend([a, b])


def op_2swap(st, cx):
    if '2swap-order' in cx.dev:
        # listed deviation: no depth check; the two popped items are re-inserted reversed below the next two
        if len(st) < 2:
            return False
        a = st.pop()
        b = st.pop()
        pos = max(0, len(st) - 2)
        st[pos:pos] = [a, b]
        return True
    if len(st) < 4:
        return False
    st[-4], st[-3], st[-2], st[-1] = st[-2], st[-1], st[-4], st[-3]


def op_ifdup(st, cx):
    if len(st) < 1:
        return False
    if cast_to_bool(st[-1], cx):
        st.append(st[-1])


def op_depth(st, cx):
    st.append(enc(len(st)))


def op_drop(st, cx):
    if len(st) < 1:
        return False
    st.pop()


def op_dup(st, cx):
    if len(st) < 1:
        return False
    st.append(st[-1])


def op_nip(st, cx):
    if len(st) < 2:
        return False
    del st[-2]


def op_over(st, cx):
    if len(st) < 2:
        return False
    st.append(st[-2])


def _pick_roll(st, cx, roll):
    if 'pick-roll-index' in cx.dev:
        # listed deviation: n is decoded without the 4-byte limit and used as the python index -n
        # (n = 1 is the item below the count, n = 0 is the bottom item, negative n counts from the bottom)
        if len(st) < 1:
            return False
        n = wire.scriptnum_value(st.pop())
        size = len(st)
        for k in range(-size + 1, size + 1):
            if n == k:
                x = st[-k]
                if roll:
                    del st[-k]
                st.append(x)
                return True
        return False
    if len(st) < 2:
        return False
    n = num(st[-1])
    if n is None:
        return False
    st.pop()
    for k in range(len(st)):
        if n == k:
            x = st[-k - 1]
            if roll:
                del st[-k - 1]
            st.append(x)
            return True
    return False


def op_pick(st, cx):
    return _pick_roll(st, cx, False)


def op_roll(st, cx):
    return _pick_roll(st, cx, True)


def op_rot(st, cx):
    if len(st) < 3:
        return False
    st.append(st.pop(-3))


def op_swap(st, cx):
    if len(st) < 2:
        return False
    st.append(st.pop(-2))


def op_tuck(st, cx):
    if len(st) < 2:
        return False
    if 'tuck-as-over' in cx.dev:
        st.append(st[-2])
        return True
    st.insert(len(st) - 2, st[-1])


def op_size(st, cx):
    if len(st) < 1:
        return False
    st.append(enc(len(st[-1])))


def op_equal(st, cx):
    if len(st) < 2:
        return False
    b = st.pop()
    a = st.pop()
    st.append(boolitem(eqb(a, b)))


def op_equalverify(st, cx):
    if len(st) < 2:
        return False
    b = st.pop()
    a = st.pop()
    if not eqb(a, b):
        return False


def _unary(f):
    def op(st, cx):
        if len(st) < 1:
            return False
        v = num(st[-1])
        if v is None:
            return False
        st.pop()
        st.append(enc(f(v)))
    return op


op_1add = _unary(lambda v: v + 1)
op_1sub = _unary(lambda v: v - 1)
op_negate = _unary(lambda v: -v)
op_abs = _unary(lambda v: abs(v))


def _is_zero(x, cx):
    """numeric zero test of NOT / 0NOTEQUAL / BOOLAND / BOOLOR"""
    if 'truthy-nonempty' in cx.dev:
        return len(x) == 0
    return wire.scriptnum_value(x) == 0


def op_not(st, cx):
    if len(st) < 1 or len(st[-1]) > 4:
        return False
    x = st.pop()
    st.append(boolitem(_is_zero(x, cx)))


def op_0notequal(st, cx):
    if len(st) < 1 or len(st[-1]) > 4:
        return False
    x = st.pop()
    st.append(boolitem(s_not(_is_zero(x, cx))))


def _binary_num(f, order_flag=None):
    def op(st, cx):
        if len(st) < 2:
            return False
        a, b = num(st[-2]), num(st[-1])
        if a is None or b is None:
            return False
        st.pop()
        st.pop()
        if order_flag and order_flag in cx.dev:
            a, b = b, a
        r = f(a, b)
        st.append(enc(r) if not isinstance(r, (bool, SBool)) else boolitem(r))
    return op


op_add = _binary_num(lambda a, b: a + b)
op_sub = _binary_num(lambda a, b: a - b, 'sub-order')
op_numlessthan = _binary_num(lambda a, b: a < b, 'cmp-order')
op_numgreaterthan = _binary_num(lambda a, b: a > b, 'cmp-order')
op_numlessthanorequal = _binary_num(lambda a, b: a <= b, 'cmp-order')
op_numgreaterthanorequal = _binary_num(lambda a, b: a >= b, 'cmp-order')
op_min = _binary_num(lambda a, b: s_ite(a < b, a, b))
op_max = _binary_num(lambda a, b: s_ite(a > b, a, b))


def _bool2(f):
    def op(st, cx):
        if len(st) < 2 or len(st[-1]) > 4 or len(st[-2]) > 4:
            return False
        b = st.pop()
        a = st.pop()
        st.append(boolitem(f(s_not(_is_zero(a, cx)), s_not(_is_zero(b, cx)))))
    return op


op_booland = _bool2(lambda a, b: s_and(a, b))
op_boolor = _bool2(lambda a, b: s_or(a, b))


def _numeq(st, cx):
    """condition of NUMEQUAL (None = operand failure)"""
    if len(st) < 2 or len(st[-1]) > 4 or len(st[-2]) > 4:
        return None
    b = st.pop()
    a = st.pop()
    if 'numequal-bytes' in cx.dev:
        return eqb(a, b)
    return wire.scriptnum_value(a) == wire.scriptnum_value(b)


def op_numequal(st, cx):
    c = _numeq(st, cx)
    if c is None:
        return False
    st.append(boolitem(c))


def op_numnotequal(st, cx):
    c = _numeq(st, cx)
    if c is None:
        return False
    st.append(boolitem(s_not(c)))


def op_numequalverify(st, cx):
    if 'numequalverify-ignores-operand-failure' in cx.dev and len(st) >= 2 and (len(st[-1]) > 4 or len(st[-2]) > 4):
        # listed deviation: the failed NUMEQUAL is ignored and VERIFY is applied to the untouched top operand
        return op_verify(st, cx)
    c = _numeq(st, cx)
    if c is None:
        return False
    if not c:
        return False


def op_within(st, cx):
    if len(st) < 3:
        return False
    x, lo, hi = num(st[-3]), num(st[-2]), num(st[-1])
    if x is None or lo is None or hi is None:
        return False
    del st[-3:]
    if 'within-order' in cx.dev:
        # listed deviation: value taken from the top, maximum from the third item
        x, hi = hi, x
    st.append(boolitem(s_and(lo <= x, x < hi)))


def _hashop(name):
    def op(st, cx):
        if len(st) < 1:
            return False
        x = st.pop()
        st.append(cx.hashf(name, x))
    return op


op_ripemd160 = _hashop('ripemd160')
op_sha1 = _hashop('sha1')
op_sha256 = _hashop('sha256')
op_hash160 = _hashop('hash160')


def op_hash256(st, cx):
    if len(st) < 1:
        return False
    x = st.pop()
    st.append(cx.hashf('sha256', cx.hashf('sha256', x)))


OPS = {k[3:]: v for k, v in list(globals().items()) if k.startswith('op_') and callable(v)}
for _n in ('nop1', 'nop4', 'nop5', 'nop6', 'nop7', 'nop8', 'nop9', 'nop10'):
    OPS[_n] = op_nop

# ------------------------------------------------------------------------------------------------- programs

OP_IF, OP_NOTIF, OP_ELSE, OP_ENDIF = 99, 100, 103, 104


def eval_program(cmds, cx, names):
    """EvalScript over a list of commands (ints = opcodes, bytes/SBytes = pushes); `names` maps opcode -> op name
    for the non-flow opcodes.  Returns (ok, stack) where ok includes the final 'stack non-empty and top is true'
    test of VerifyScript."""
    st = []
    vf = []                 # vfExec
    for c in cmds:
        fexec = all(vf)
        if not isinstance(c, int):
            if fexec:
                st.append(c)
            continue
        if c in (OP_IF, OP_NOTIF):
            val = False
            if fexec:
                if len(st) < 1:
                    return False, st
                x = st.pop()
                val = bool(cast_to_bool_consensus_or_dev(x, cx))
                if c == OP_NOTIF:
                    val = not val
            vf.append(val)
            continue
        if c == OP_ELSE:
            if not vf:
                return False, st
            vf[-1] = not vf[-1]
            continue
        if c == OP_ENDIF:
            if not vf:
                return False, st
            vf.pop()
            continue
        if not fexec:
            continue
        if c == 0:
            st.append(b'')
        elif c == 79:
            st.append(b'\x81')
        elif 81 <= c <= 96:
            st.append(bytes([c - 80]))
        else:
            nm = names.get(c)
            if nm is None:          # unknown / disabled / reserved opcode: the script fails
                return False, st
            r = OPS[nm](st, cx)
            if r is False:
                return False, st
    if vf:
        return False, st
    if len(st) == 0:
        return False, st
    return bool(cast_to_bool(st[-1], cx)), st


def cast_to_bool_consensus_or_dev(x, cx):
    # IF/NOTIF in bitcoinlib use decode_num(x) == 0, which coincides with CastToBool for every byte string
    return wire.cast_to_bool(x)


# ------------------------------------------------------------------------------------------------- opcode numbers
# Bitcoin Core src/script/script.h (enum opcodetype) - independent of bitcoinlib's own table
CORE_OPCODES = {
    0x61: 'nop', 0x69: 'verify', 0x6a: 'return', 0x6d: '2drop', 0x6e: '2dup', 0x6f: '3dup', 0x70: '2over', 0x71: '2rot',
    0x72: '2swap', 0x73: 'ifdup', 0x74: 'depth', 0x75: 'drop', 0x76: 'dup', 0x77: 'nip', 0x78: 'over', 0x79: 'pick',
    0x7a: 'roll', 0x7b: 'rot', 0x7c: 'swap', 0x7d: 'tuck', 0x82: 'size', 0x87: 'equal', 0x88: 'equalverify',
    0x8b: '1add', 0x8c: '1sub', 0x8f: 'negate', 0x90: 'abs', 0x91: 'not', 0x92: '0notequal', 0x93: 'add', 0x94: 'sub',
    0x9a: 'booland', 0x9b: 'boolor', 0x9c: 'numequal', 0x9d: 'numequalverify', 0x9e: 'numnotequal',
    0x9f: 'numlessthan', 0xa0: 'numgreaterthan', 0xa1: 'numlessthanorequal', 0xa2: 'numgreaterthanorequal',
    0xa3: 'min', 0xa4: 'max', 0xa5: 'within', 0xa6: 'ripemd160', 0xa7: 'sha1', 0xa8: 'sha256', 0xa9: 'hash160',
    0xaa: 'hash256', 0xb0: 'nop1', 0xb3: 'nop4', 0xb4: 'nop5', 0xb5: 'nop6', 0xb6: 'nop7', 0xb7: 'nop8', 0xb8: 'nop9',
    0xb9: 'nop10',
}
# opcodes consensus makes the script fail unconditionally when executed (disabled / reserved / invalid)
CORE_FAILING = [0x50, 0x62, 0x65, 0x66, 0x7e, 0x7f, 0x80, 0x81, 0x83, 0x84, 0x85, 0x86, 0x89, 0x8a, 0x8d, 0x8e, 0x95, 0x96, 0x97,
                0x98, 0x99, 0xba, 0xff]


# ------------------------------------------------------------------------------------------------- signature ops
# cx.checksig(sig_item, key_item) is the signature-validity oracle (an arbitrary relation in the symbolic runs)

def op_checksig(st, cx):
    if len(st) < 2:
        return False
    key = st.pop()
    sig = st.pop()
    st.append(boolitem(cx.checksig(sig, key)))


def op_checksigverify(st, cx):
    if len(st) < 2:
        return False
    key = st.pop()
    sig = st.pop()
    if not cx.checksig(sig, key):
        return False


def _checkmultisig(st, cx):
    """Core EvalScript OP_CHECKMULTISIG: returns None on script failure, else the success flag"""
    i = 1
    if len(st) < i:
        return None
    nkeys = num(st[-i])
    if nkeys is None:
        return None
    if isinstance(nkeys, SInt):
        nkeys = nkeys.concretize()
    if nkeys < 0 or nkeys > 20:
        return None
    ikey = i + 1
    i += 1 + nkeys
    if len(st) < i:
        return None
    nsigs = num(st[-i])
    if nsigs is None:
        return None
    if isinstance(nsigs, SInt):
        nsigs = nsigs.concretize()
    if nsigs < 0 or nsigs > nkeys:
        return None
    isig = i + 1
    i += 1 + nsigs
    if len(st) < i:
        return None
    ok = True
    ks, ss = nkeys, nsigs
    while ok and ss > 0:
        if cx.checksig(st[-isig], st[-ikey]):
            isig += 1
            ss -= 1
        ikey += 1
        ks -= 1
        if ss > ks:
            ok = False
    # pop everything incl. the extra dummy element
    if len(st) < i:
        return None
    del st[-(i - 1):]
    if len(st) < 1:
        return None
    st.pop()
    return ok


def op_checkmultisig(st, cx):
    r = _checkmultisig(st, cx)
    if r is None:
        return False
    st.append(boolitem(r))


def op_checkmultisigverify(st, cx):
    r = _checkmultisig(st, cx)
    if r is None or not r:
        return False


for _k in ('checksig', 'checksigverify', 'checkmultisig', 'checkmultisigverify'):
    OPS[_k] = globals()['op_' + _k]
