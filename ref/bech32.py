"""Reference Bech32 / Bech32m segwit address decoder and encoder, written from BIP173 and BIP350.
Works on str and on symx SStr/SInt proxies (forks through the scheduler on data-dependent branches)."""
import z3
from symx import core
from symx.core import SStr, SChar, SInt, SBytes, s_and, s_or, s_not, mk_int

CHARSET = "qpzry9x8gf2tvdw0s3jn54khce6mua7l"
GEN = [0x3b6a57b2, 0x26508e6d, 0x1ea119fa, 0x3d4233dd, 0x2a1462b3]
BECH32M = 0x2bc830a3


POLYMOD = [None]        # set to an uninterpreted fold (symx.stubs.FoldStub) by harnesses that abstract the BCH code


def polymod(values):
    """branch-free polymod on ints / SInt (30-bit state)"""
    if POLYMOD[0] is not None and not all(isinstance(v, int) for v in values):
        return POLYMOD[0](values)
    return polymod_formula(values)


def polymod_formula(values):
    if all(isinstance(v, int) for v in values):
        chk = 1
        for v in values:
            b = chk >> 25
            chk = (chk & 0x1ffffff) << 5 ^ v
            for i in range(5):
                chk ^= GEN[i] if ((b >> i) & 1) else 0
        return chk
    W = core.cur().W
    chk = z3.BitVecVal(1, W)
    for v in values:
        vt = core._bv(v)
        top = z3.LShR(chk, 25)
        chk = ((chk & 0x1ffffff) << 5) ^ vt
        for i in range(5):
            chk = chk ^ z3.If(z3.Extract(i, i, top) == 1, z3.BitVecVal(GEN[i], W), z3.BitVecVal(0, W))
    return mk_int(chk, 0, 2 ** 30 - 1)


def _code(ch):
    return ch.c if isinstance(ch, SChar) else ord(ch)


def charset_index(ch):
    """index of a character in CHARSET or None; ch: str char or SChar (forks)"""
    c = _code(ch)
    for k, x in enumerate(CHARSET):
        if c == ord(x):
            return k
    return None


def convertbits_5to8_strict(data):
    """BIP173 convertbits(data, 5, 8, pad=False): None on bad padding"""
    acc, bits, ret = 0, 0, []
    for v in data:
        acc = (acc << 5) | v
        bits += 5
        while bits >= 8:
            bits -= 8
            ret.append((acc >> bits) & 0xff)
        acc = acc & ((1 << bits) - 1)
    if bits >= 5:
        return None
    if bits and (acc != 0):
        return None
    return ret


def decode_segwit(s):
    """returns None (invalid) or (hrp code points, witver, program list); s: str or SStr.
    Per-character conditions are accumulated and decided once (few forks)."""
    n = len(s)
    cps = [_code(s[i]) for i in range(n)]
    printable = s_and(*[s_and(c >= 33, c <= 126) for c in cps])
    has_lower = s_or(*[s_and(c >= 97, c <= 122) for c in cps])
    has_upper = s_or(*[s_and(c >= 65, c <= 90) for c in cps])
    if not s_and(printable, s_not(s_and(has_lower, has_upper))):
        return None
    low = [core.s_ite(s_and(c >= 65, c <= 90), c + 32, c) for c in cps]
    pos = -1
    for i in range(n - 1, -1, -1):
        if low[i] == ord('1'):
            pos = i
            break
    if pos < 1 or pos + 7 > n or n > 90:
        return None
    tab = core.SymTable(CHARSET, text=True)
    data = [tab.find(SChar(c) if isinstance(c, SInt) else chr(c)) for c in low[pos + 1:]]
    if not s_and(*[d >= 0 for d in data]):
        return None
    hrp = low[:pos]
    exp = [c >> 5 for c in hrp] + [0] + [c & 31 for c in hrp]
    const = polymod(exp + data)
    witver = data[0]
    if witver > 16:
        return None
    if witver == 0:
        if const != 1:
            return None
    else:
        if const != BECH32M:
            return None
    prog = convertbits_5to8_strict(data[1:-6])
    if prog is None or len(prog) < 2 or len(prog) > 40:
        return None
    if witver == 0 and len(prog) not in (20, 32):
        return None
    return hrp, witver, prog


def encode_segwit(hrp, witver, prog):
    """hrp str, witver int (concrete), prog list of ints/SInt: returns list of code points of the address"""
    acc, bits, d5 = 0, 0, []
    for v in prog:
        acc = (acc << 8) | v
        bits += 8
        while bits >= 5:
            bits -= 5
            d5.append((acc >> bits) & 31)
        acc = acc & ((1 << bits) - 1)
    if bits:
        d5.append((acc << (5 - bits)) & 31)
    data = [witver] + d5
    exp = [ord(c) >> 5 for c in hrp] + [0] + [ord(c) & 31 for c in hrp]
    const = 1 if witver == 0 else BECH32M
    pm = polymod(exp + data + [0, 0, 0, 0, 0, 0]) ^ const
    chk = [(pm >> (5 * (5 - i))) & 31 for i in range(6)]
    tab = core.SymTable(CHARSET, text=True)
    out = [ord(c) for c in hrp] + [ord('1')]
    for v in data + chk:
        ch = tab[v] if isinstance(v, SInt) else CHARSET[v]
        out.append(ch.c if isinstance(ch, SChar) else ord(ch))
    return out


def polymod_step_concrete(chk, v):
    b = chk >> 25
    chk = (chk & 0x1ffffff) << 5 ^ v
    for i in range(5):
        chk ^= GEN[i] if ((b >> i) & 1) else 0
    return chk
