"""Reference signature-hash preimages, written from BIP143 and from Bitcoin Core's legacy SignatureHash
(SIGHASH_ALL only).  Work on concrete values and on symx proxies.  `H` is the double-SHA256 (a stub in symbolic
runs).  Transactions are plain data:
  ins  = [(txid32 (internal byte order = as displayed, i.e. reversed on the wire), vout:int, sequence:int)]
  outs = [(value:int, script_pubkey:bytes)]"""
from ref.wire import compact_size


def ser_out(val, spk):
    return val.to_bytes(8, 'little') + compact_size(len(spk)) + spk


def legacy_preimage(version, ins, outs, locktime, i, subscript, hash_type=1):
    r = version.to_bytes(4, 'little') + compact_size(len(ins))
    for k, (txid, vout, seq) in enumerate(ins):
        r = r + txid[::-1] + vout.to_bytes(4, 'little')
        if k == i:
            r = r + compact_size(len(subscript)) + subscript
        else:
            r = r + b'\x00'
        r = r + seq.to_bytes(4, 'little')
    r = r + compact_size(len(outs))
    for (val, spk) in outs:
        r = r + ser_out(val, spk)
    return r + locktime.to_bytes(4, 'little') + hash_type.to_bytes(4, 'little')


def bip143_preimage(H, version, ins, outs, locktime, i, script_code, amount, hash_type=1):
    prevouts, seqs, o = b'', b'', b''
    for (txid, vout, seq) in ins:
        prevouts = prevouts + txid[::-1] + vout.to_bytes(4, 'little')
        seqs = seqs + seq.to_bytes(4, 'little')
    for (val, spk) in outs:
        o = o + ser_out(val, spk)
    txid, vout, seq = ins[i]
    return version.to_bytes(4, 'little') + H(prevouts) + H(seqs) + txid[::-1] + vout.to_bytes(4, 'little') + \
        compact_size(len(script_code)) + script_code + amount.to_bytes(8, 'little') + seq.to_bytes(4, 'little') + \
        H(o) + locktime.to_bytes(4, 'little') + hash_type.to_bytes(4, 'little')


def p2pkh_script(h160):
    return b'\x76\xa9\x14' + h160 + b'\x88\xac'


def p2pk_script(pubkey):
    return bytes([len(pubkey)]) + pubkey + b'\xac'


def multisig_script(m, pubkeys):
    """OP_m <pk1> ... <pkn> OP_n OP_CHECKMULTISIG; m int or proxy"""
    from symx.core import SBytes, SInt
    r = SBytes([m + 80]) if isinstance(m, SInt) else bytes([m + 80])
    for pk in pubkeys:
        r = r + bytes([len(pk)]) + pk
    return r + bytes([len(pubkeys) + 80]) + b'\xae'
