"""Reference models of Bitcoin wire primitives, written from the protocol documentation / Bitcoin Core
(serialize.h WriteCompactSize/ReadCompactSize, script.h CScriptNum, CScript::operator<<).  They operate on
ordinary Python values AND on symx proxies (only +, slicing, comparisons, to_bytes are used)."""
from symx.core import SBytes, SInt, s_ite, s_and, s_or, s_not
from symx.shims import IntShim


def compact_size(n):
    """canonical CompactSize of a concrete or symbolic n in [0, 2^64) - returned as a list of (guard, bytes) cases
    when n is symbolic is avoided: callers branch on the guards themselves via compact_size_cases"""
    if n < 0xfd:
        return n.to_bytes(1, 'little')
    if n <= 0xffff:
        return b'\xfd' + n.to_bytes(2, 'little')
    if n <= 0xffffffff:
        return b'\xfe' + n.to_bytes(4, 'little')
    return b'\xff' + n.to_bytes(8, 'little')


def compact_size_decode(buf):
    """(value, consumed) for a buffer that starts with a CompactSize (any, also non-canonical, encoding);
    buf is bytes/SBytes of known length >= 9 or exactly the encoding"""
    first = buf[0]
    if first < 253:
        return first, 1
    if first == 253:
        return IntShim.from_bytes(buf[1:3], 'little'), 3
    if first == 254:
        return IntShim.from_bytes(buf[1:5], 'little'), 5
    return IntShim.from_bytes(buf[1:9], 'little'), 9


def push_header(length):
    """minimal push opcode for `length` bytes of data (CScript::operator<<(vector)); length concrete"""
    if length <= 75:
        return bytes([length])
    if length <= 0xff:
        return b'\x4c' + bytes([length])
    if length <= 0xffff:
        return b'\x4d' + length.to_bytes(2, 'little')
    return b'\x4e' + length.to_bytes(4, 'little')


def scriptnum_value(b):
    """CScriptNum::set_vch: little endian magnitude with sign bit in the top bit of the last byte.
    b: bytes/SBytes, len <= 8.  Returns int/SInt."""
    n = len(b)
    if n == 0:
        return 0
    last = b[n - 1]
    mag = IntShim.from_bytes(b[:n - 1] + SBytes([last & 0x7f]), 'little')
    neg = (last & 0x80) != 0
    return s_ite(neg, -mag, mag) if not isinstance(neg, bool) else (-mag if neg else mag)


def scriptnum_is_minimal(b):
    """Core's fRequireMinimal check for numbers"""
    n = len(b)
    if n == 0:
        return True
    last = b[n - 1]
    if n == 1:
        return (last & 0x7f) != 0
    return s_or((last & 0x7f) != 0, (b[n - 2] & 0x80) != 0)


def scriptnum_len(v):
    """length of CScriptNum::serialize(v) for concrete v"""
    if v == 0:
        return 0
    a = abs(v)
    return a.bit_length() // 8 + 1


def cast_to_bool(b):
    """Core CastToBool: false iff all bytes zero, except that the last byte may be 0x80 (negative zero)"""
    n = len(b)
    r = False
    for i in range(n):
        if i == n - 1:
            r = s_or(r, s_and(b[i] != 0, b[i] != 0x80))
        else:
            r = s_or(r, b[i] != 0)
    return r
