"""Tiny independent secp256k1 (affine, pure Python) used only to REPLAY counterexamples of the group-model
harnesses concretely.  Not used by any symbolic obligation."""
P = 2 ** 256 - 2 ** 32 - 977
N = 0xFFFFFFFFFFFFFFFFFFFFFFFFFFFFFFFEBAAEDCE6AF48A03BBFD25E8CD0364141
G = (0x79BE667EF9DCBBAC55A06295CE870B07029BFCDB2DCE28D959F2815B16F81798,
     0x483ADA7726A3C4655DA4FBFC0E1108A8FD17B448A68554199C47D08FFB10D4B8)


def add(a, b):
    if a is None:
        return b
    if b is None:
        return a
    if a[0] == b[0] and (a[1] + b[1]) % P == 0:
        return None
    if a == b:
        l = 3 * a[0] * a[0] * pow(2 * a[1], -1, P) % P
    else:
        l = (b[1] - a[1]) * pow(b[0] - a[0], -1, P) % P
    x = (l * l - a[0] - b[0]) % P
    return (x, (l * (a[0] - x) - a[1]) % P)


def mul(k, pt=G):
    r = None
    k %= N
    while k:
        if k & 1:
            r = add(r, pt)
        pt = add(pt, pt)
        k >>= 1
    return r


def ser(pt, compressed=True):
    if pt is None:
        return b'\x00' * 33
    if compressed:
        return bytes([2 + (pt[1] & 1)]) + pt[0].to_bytes(32, 'big')
    return b'\x04' + pt[0].to_bytes(32, 'big') + pt[1].to_bytes(32, 'big')
