"""C01 - signed digests equal the Bitcoin consensus sighash (legacy and BIP143).

Real code executed symbolically: Transaction.signature_hash, signature, signature_segwit,
raw(sign_id, hash_type, 'legacy'), Input.update_scripts (script-code derivation), Script(script_types=['multisig'])
+ serialize + data_pack, varstr, int_to_varbyteint.  Objects are built with __new__ and their fields set directly
(drive the unit); update_scripts then runs for real on the skeleton.  The double-SHA256 is an uninterpreted,
collision-free symbol, so the obligation is byte equality of the preimages, nested ones included."""
import z3
from symx import core, shims, stubs
from symx.core import SBytes, SInt, s_and, s_or, s_not
from vtlib.api import Job, kf
from ref import sighash, wire

PROPERTY = 'C01'
ASSUMPTIONS = [
    'double_sha256 is an uninterpreted function, functional and collision-free (Ackermann axioms): equal digests <=> equal preimages',
    'Key.hash160 is the hash160 of Key.public_byte (checked by C04); keys are Key objects created with __new__ whose public_byte/hash160 are symbols',
    'hash type SIGHASH_ALL (the only type Transaction.sign accepts)',
    'scripts longer than 80 bytes have symbolic first/last two bytes and concrete filler',
]
BOUNDS = {
    'quick': 'transactions with 1..2 inputs and 1..2 outputs; every sign index; signed input kind: p2pkh, p2pk (33- and 65-byte keys), p2sh multisig (m-of-n, n<=3, m symbolic), p2wpkh, p2sh-p2wpkh, p2wsh multisig, p2sh-p2wsh multisig, the other input legacy or segwit; version, locktime, sequences, outpoint indices: all 32-bit values; txids: all 32-byte values; values up to 21e14; output script lengths {0,1,2,25}',
    'thorough': 'as quick with up to 3 inputs (2 outputs), output script lengths {0,1,2,25,76,253}, multisig n<=4, and output counts 252/253 (CompactSize boundary) with one symbolic output for every input kind (a first sizing with 3 outputs, 9 lengths and n<=5 did not finish in 50 min per job)',
}
OUTSIDE = 'Taproot; hash types other than ALL; that the uninterpreted hash is SHA256d; multisig n > 4'
MAXV = 21 * 10 ** 14


def _mods():
    import bitcoinlib.transactions as T
    import bitcoinlib.encoding as E
    import bitcoinlib.scripts as S
    import bitcoinlib.keys as K
    return T, E, S, K


_H = {}


def setup(ex):
    T, E, S, K = _mods()
    for m in (T, E, S):
        shims.install(m, int=shims.IntShim, bytes=shims.BytesShim)
    _H['d'] = stubs.HashStub('dsha', 32)
    ex.axiom_sources = [_H['d']]
    _H['h160'] = stubs.HashStub('h160', 20)
    shims.install(T, double_sha256=_H['d'], hash160=_H['h160'])


def setup_init(ex):
    setup(ex)
    T, E, S, K = _mods()
    shims.install(S, BytesIO=shims.SBytesIO)
    shims.install(K, int=shims.IntShim, bytes=shims.BytesShim)


def _H2(ex):
    if ex.concrete:
        from bitcoinlib.encoding import double_sha256
        return double_sha256
    return _H['d']


def sym_blob(ex, name, n):
    if n <= 80:
        return ex.bytes(name, n) if n else b''
    return ex.bytes(name + '_head', 2) + bytes((i * 7 + 3) & 0xff for i in range(n - 4)) + ex.bytes(name + '_tail', 2)


def _eq(a, b):
    if len(a) != len(b):
        return False
    if len(a) == 0:
        return True
    return a == b


def mk_key(ex, K, name, allow_uncompressed=False):
    k = K.Key.__new__(K.Key)
    # (pay-to-pubkey outputs of the early chain carry 65-byte uncompressed keys: both serializations for that kind)
    if allow_uncompressed and ex.choose(name + '_form', ['compressed', 'uncompressed']) == 'uncompressed':
        k.public_byte = b'\x04' + ex.bytes(name + '_x', 32) + ex.bytes(name + '_y', 32)
        k.compressed = False
    else:
        k.public_byte = b'\x02' + ex.bytes(name + '_x', 32)
        k.compressed = True
    k._hash160 = ex.bytes(name + '_h160', 20)
    k.is_private = False
    k.public_hex = None
    return k


KINDS = {
    # kind: (script_type, input witness_type)
    'p2pkh': ('sig_pubkey', 'legacy'),
    'p2pk': ('signature', 'legacy'),
    'p2sh_multisig': ('p2sh_multisig', 'legacy'),
    'p2wpkh': ('sig_pubkey', 'segwit'),
    'p2sh_p2wpkh': ('p2sh_p2wpkh', 'p2sh-segwit'),
    'p2wsh': ('p2sh_p2wsh', 'segwit'),
    'p2sh_p2wsh': ('p2sh_p2wsh', 'p2sh-segwit'),
}


def mk_input(ex, T, K, idx, kind, nkeys):
    st, wt = KINDS[kind]
    i = T.Input.__new__(T.Input)
    txid = ex.bytes('txid%d' % idx, 32)
    vout = ex.int('vout%d' % idx, 0, 2 ** 32 - 1)
    seq = ex.int('seq%d' % idx, 0, 2 ** 32 - 1)
    val = ex.int('amount%d' % idx, 1, MAXV)
    i.prev_txid = txid
    i.output_n = vout.to_bytes(4, 'big')
    i.sequence = seq
    i.value = val
    i.index_n = idx
    i.script_type = st
    i.witness_type = wt
    i.signatures = []
    i.redeemscript = b''
    i.locking_script = b''
    i.unlocking_script = b''
    i.public_hash = b''
    i.address = 'set-to-skip-address-construction'
    i.strict = True
    i.witnesses = []
    i.compressed = True
    i.encoding = 'base58'
    i.network = None
    multisig = st in ('p2sh_multisig', 'p2sh_p2wsh')
    if kind == 'p2sh_multisig':
        # the caller may also have supplied the spent output's scriptPubKey (a914<20>87): the subscript stays the redeemscript
        if ex.choose('prevout_script%d' % idx, ['not-given', 'given']) == 'given':
            i.locking_script = b'\xa9\x14' + ex.bytes('p2sh_h%d' % idx, 20) + b'\x87'
    n = nkeys if multisig else 1
    i.keys = [mk_key(ex, K, 'k%d_%d' % (idx, j), allow_uncompressed=(kind == 'p2pk')) for j in range(n)]
    m = ex.int('m%d' % idx, 1, n) if (multisig and n > 1) else 1
    i.sigs_required = m
    if multisig:
        i.public_hash = ex.bytes('scripthash%d' % idx, 20 if wt == 'legacy' else 32)
    i.update_scripts()
    # reference script code (BIP143 "scriptCode" / legacy subscript) for this kind
    if kind in ('p2pkh', 'p2wpkh', 'p2sh_p2wpkh'):
        code = sighash.p2pkh_script(i.keys[0]._hash160)
    elif kind == 'p2pk':
        code = sighash.p2pk_script(i.keys[0].public_byte)
    else:
        code = sighash.multisig_script(m, [k.public_byte for k in i.keys])
    return i, (txid, vout, seq), val, code


class _Out:
    pass


def h_sighash(ex, kind, other_kinds, max_in, max_out, out_lens, nkeys):
    T, E, S, K = _mods()
    H = _H2(ex)
    nin = ex.choose('nin', list(range(1, max_in + 1)))
    nout = ex.choose('nout', list(range(1, max_out + 1)))
    sid = ex.choose('sign_id', list(range(nin)))
    version = ex.int('version', 0, 2 ** 32 - 1)
    locktime = ex.int('locktime', 0, 2 ** 32 - 1)
    t = T.Transaction.__new__(T.Transaction)
    t.version = version.to_bytes(4, 'big')
    t.locktime = locktime
    t.inputs, t.outputs = [], []
    t.size = 1
    ins, amounts, codes, kinds = [], [], [], []
    for k in range(nin):
        kd = kind if k == sid else ex.choose('kind%d' % k, other_kinds)
        inp, ref_in, val, code = mk_input(ex, T, K, k, kd, nkeys if k == sid else 2)
        t.inputs.append(inp)
        ins.append(ref_in)
        amounts.append(val)
        codes.append(code)
        kinds.append(kd)
    t.witness_type = 'segwit' if any(KINDS[kd][1] != 'legacy' for kd in kinds) else 'legacy'
    outs = []
    for k in range(nout):
        val = ex.int('outval%d' % k, 0, MAXV)
        ln = ex.choose('outlen%d' % k, out_lens)
        spk = sym_blob(ex, 'spk%d' % k, ln)
        o = _Out()
        o.value, o.lock_script = val, spk
        t.outputs.append(o)
        outs.append((val, spk))
    wt = KINDS[kind][1]
    got = t.signature(sid, 1, wt)
    if wt == 'legacy':
        want = sighash.legacy_preimage(version, ins, outs, locktime, sid, codes[sid])
    else:
        want = sighash.bip143_preimage(H, version, ins, outs, locktime, sid, codes[sid], amounts[sid])
    # listed finding: a script that is the single byte 00 loses its length prefix (varstr special case)
    zero1 = s_or(*[(len(spk) == 1) and (spk[0] == 0) for (_, spk) in outs])
    ex.check(_eq(got, want), 'preimage-%s' % ('legacy' if wt == 'legacy' else 'bip143'),
             known=kf('C01-preimage-single-zero-byte-script', zero1))
    # the digest handed to the signer is the hash of exactly that preimage
    dg = t.signature_hash(sid, 1, wt)
    ex.check(_eq(dg, H(want)), 'digest-is-hash-of-preimage', known=kf('C01-preimage-single-zero-byte-script', zero1))
    ex.sample(kind=kind, nin=nin, nout=nout, sign_id=sid, tx_witness_type=t.witness_type, preimage_len=len(got))
    # history: change fields IN PLACE (same counts) after a digest was computed, then ask again - no stale state may
    # survive (e.g. what bumpfee / sequence changes followed by re-signing do)
    what = ex.choose('modify', ['outvalue', 'outscript', 'sequence', 'locktime'])
    outs2, ins2, locktime2 = list(outs), list(ins), locktime
    if what == 'outvalue':
        nv = ex.int('new_outval', 0, MAXV)
        t.outputs[0].value = nv
        outs2[0] = (nv, outs[0][1])
    elif what == 'outscript':
        nsp = ex.bytes('new_spk', 2)
        t.outputs[0].lock_script = nsp
        outs2[0] = (outs[0][0], nsp)
    elif what == 'sequence':
        ns = ex.int('new_seq', 0, 2 ** 32 - 1)
        t.inputs[0].sequence = ns
        ins2[0] = (ins[0][0], ins[0][1], ns)
    else:
        locktime2 = ex.int('new_locktime', 0, 2 ** 32 - 1)
        t.locktime = locktime2
    got2 = t.signature(sid, 1, wt)
    if wt == 'legacy':
        want2 = sighash.legacy_preimage(version, ins2, outs2, locktime2, sid, codes[sid])
    else:
        want2 = sighash.bip143_preimage(H, version, ins2, outs2, locktime2, sid, codes[sid], amounts[sid])
    zero2 = s_or(*[(len(spk) == 1) and (spk[0] == 0) for (_, spk) in outs2])
    ex.check(_eq(got2, want2), 'preimage-after-in-place-change', known=kf('C01-preimage-single-zero-byte-script', zero2))


def h_many_outputs(ex, kind, count):
    """output count across the CompactSize boundary: `count` outputs, the last one symbolic"""
    T, E, S, K = _mods()
    H = _H2(ex)
    version = ex.int('version', 0, 2 ** 32 - 1)
    locktime = ex.int('locktime', 0, 2 ** 32 - 1)
    t = T.Transaction.__new__(T.Transaction)
    t.version = version.to_bytes(4, 'big')
    t.locktime = locktime
    t.size = 1
    inp, ref_in, val, code = mk_input(ex, T, K, 0, kind, 2)
    t.inputs = [inp]
    t.witness_type = 'segwit' if KINDS[kind][1] != 'legacy' else 'legacy'
    outs, t.outputs = [], []
    for k in range(count):
        o = _Out()
        if k == count - 1:
            o.value, o.lock_script = ex.int('outval', 0, MAXV), ex.bytes('spk', 2)
        else:
            o.value, o.lock_script = k, bytes([0x51, k & 0x7f])
        t.outputs.append(o)
        outs.append((o.value, o.lock_script))
    wt = KINDS[kind][1]
    got = t.signature(0, 1, wt)
    want = sighash.legacy_preimage(version, [ref_in], outs, locktime, 0, code) if wt == 'legacy' else \
        sighash.bip143_preimage(H, version, [ref_in], outs, locktime, 0, code, val)
    ex.check(_eq(got, want), 'preimage-many-outputs')


TEMPLATES = {
    # name: (prefix, hashlen, suffix, expected witness_type, expected script_type or None)
    'p2pkh': (b'\x76\xa9\x14', 20, b'\x88\xac', 'legacy'),
    'p2sh': (b'\xa9\x14', 20, b'\x87', 'legacy'),
    'p2wpkh': (b'\x00\x14', 20, b'', 'segwit'),
    'p2wsh': (b'\x00\x20', 32, b'', 'segwit'),
}


def h_input_init(ex):
    """which digest algorithm an input gets when it is described by the locking script it spends (no explicit witness
    type): witness v0 programs (P2WPKH, P2WSH) must be signed with BIP143 (witness_type 'segwit'), P2PKH / P2SH as
    legacy; an explicit witness type is kept"""
    T, E, S, K = _mods()
    name = ex.choose('template', list(TEMPLATES))
    pre, hl, suf, want_wt = TEMPLATES[name]
    h = ex.bytes('hash', hl)
    txid = ex.bytes('txid', 32)
    ex.assume(txid[0] >= 0x80)          # (a txid of ASCII hex digits would be hex-decoded by to_bytes: C06 finding)
    ex.assume(h[0] >= 0x80)
    explicit = ex.choose('explicit_witness_type', [None, 'segwit', 'legacy'])
    kw = dict(witness_type=explicit) if explicit else {}
    if not ex.concrete:
        shims.install(T, _logger=_NullLog(), Address=_FakeAddress)     # the address text is irrelevant here (C05)
    inp = T.Input(prev_txid=txid, output_n=ex.int('vout', 0, 2 ** 32 - 1), locking_script=pre + h + suf, value=ex.int('value', 1, MAXV),
                  address='skip' if False else '', network='bitcoin', **kw)
    if explicit == 'legacy' and want_wt == 'segwit':
        # a witness program described as legacy: the library overrides with segwit (locking script wins) - accepted
        ex.check(inp.witness_type in ('segwit', 'legacy'), 'explicit-legacy-on-witness-program')
    elif explicit:
        ex.check(inp.witness_type == explicit or (explicit == 'legacy' and inp.witness_type == 'legacy'), 'explicit-witness-type-kept')
    else:
        ex.check(inp.witness_type == want_wt, 'witness-type-inferred-from-locking-script')
    ex.check(_eq(inp.public_hash, h), 'public-hash-extracted-from-locking-script')


class _NullLog:
    def __getattr__(self, n):
        return lambda *a, **k: None


class _FakeAddress:
    def __init__(self, *a, **k):
        self.address = 'address-not-modelled'


def jobs(tier):
    q = tier == 'quick'
    J = []
    others = ['p2pkh', 'p2wpkh']
    for kind in KINDS:
        j = Job('sighash_%s' % kind, h_sighash, W=72, setup=setup, budget_s=3000 if q else 9000,
                params=dict(kind=kind, other_kinds=others, max_in=2 if q else 3, max_out=2,
                            out_lens=[0, 1, 2, 25] if q else [0, 1, 2, 25, 76, 253],
                            nkeys=3 if q else 4))
        j.cost = 50
        J.append(j)
    J.append(Job('input_init', h_input_init, W=72, setup=setup_init, budget_s=1500))
    for kind in (['p2pkh', 'p2wpkh'] if q else list(KINDS)):
        for count in (252, 253):
            J.append(Job('outputs_%d_%s' % (count, kind), h_many_outputs, W=72, setup=setup, params=dict(kind=kind, count=count), budget_s=1500))
    return J
