"""C07 - wallet-created transactions conserve value: coin selection, transaction creation with an explicit fee, and the
fee-bump arithmetic.

Real code executed symbolically (linear integer arithmetic, symx.lia): Wallet.select_inputs, Wallet.transaction_create
(explicit integer fee, automatic input selection, one change output), WalletTransaction / Transaction.add_input /
add_output / estimate_size, Transaction.bumpfee + update_totals.
The database is a stand-in session (symx.sqlmini) that EVALUATES the SQLAlchemy filter / order_by expressions the
library builds over rows with symbolic amounts, confirmation counts and spent flags; counterexamples are replayed
against a real sqlite wallet."""
from symx import core, shims, lia
from symx.core import SInt, s_and, s_or, s_not
from vtlib.api import Job, kf

PROPERTY = 'C07'
ASSUMPTIONS = ['the database is modelled by symx.sqlmini: filter / order_by / first / all of the SQLAlchemy expressions the library builds, evaluated over stand-in rows (ties in ORDER BY keep insertion order; validated by replay on sqlite)',
               'bumpfee: re-signing (sign_and_update) is replaced by the real Transaction.update_totals: signatures do not influence amounts',
               'transaction_create: key lookup (_objects_by_key_id), change-key generation (get_keys) and the fee provider are stubs returning one fixed public key / change address / fee rate; the final signature_hash (txid) is skipped',
               'int(a * 1000.0 / b) and int(c * x) for a constant double c are over-approximated by floor or floor + 1 of the exact value (symx.lia.SFloatQ: sound because rounding is monotone and integers below 2^53 are exact); a counterexample resting on the extra freedom would not reproduce in the replay',
               'amounts, fees and sizes are arbitrary integers in the stated ranges']
BOUNDS = {'quick': 'select_inputs: every set of <= 3 UTXOs (value 0..21e14, confirmations 0..10, spent or not), amount 1..21e14, min_confirms 0..3, max_utxos in {None, 1, 2}; transaction_create: <= 2 UTXOs, one recipient, amount 1..21e14, explicit fee 0..10^9 or automatic fee from a provider rate 1..10^7 sat/kB, max_utxos in {None, 1}, one change output, inputs selected automatically or named explicitly; add_input_from_wallet: <= 2 candidate outputs (any index / value) against one already spent outpoint; send: every min_confirms 0..1000 / locktime / max_utxos / change setting x four estimate-vs-exact fee pairs; bumpfee: one input, one recipient and 0..5 change outputs, old fee >= 1, vsize 60..100000, fee / extra_fee 0..10^12',
          'thorough': 'select_inputs <= 4 UTXOs, transaction_create <= 3 UTXOs, bumpfee 0..7 change outputs'}
OUTSIDE = 'named fee priorities, explicit Input objects (see C10 for the threshold), several or random change outputs (numpy dirichlet), send / sweep, multisig and non-segwit wallets, the fee-rate limit checks themselves, WalletTransaction.bumpfee wrapper, that a sufficient UTXO set is always found (C07 does not demand it; see DESIGN.md)'
MAXV = 21 * 10 ** 14


class O:
    def __init__(self, v, change):
        self.value, self.change = v, change


class I:
    def __init__(self, v):
        self.value = v


def setup(ex):
    import bitcoinlib.transactions as T
    shims.install(T, int=lia.IntShimL)


def h_bumpfee(ex, nchange):
    import bitcoinlib.transactions as T
    pay = ex.lint('pay', 1, MAXV)
    chg = [ex.lint('change%d' % k, 0, MAXV) for k in range(nchange)]
    old_fee = ex.lint('old_fee', 1, 10 ** 9)
    vsize = ex.lint('vsize', 60, 100000)
    mode = ex.choose('mode', ['fee', 'extra_fee', 'default'])
    arg = ex.lint('arg', 1, 10 ** 12) if mode != 'default' else 0
    total_in = pay + sum(chg) + old_fee
    ex.assume(total_in <= MAXV)
    t = T.Transaction.__new__(T.Transaction)
    t.inputs = [I(total_in)]
    recipient = O(pay, False)
    outs = [recipient] + [O(c, True) for c in chg]
    t.outputs = list(outs)
    t.fee, t.vsize, t.size, t.coinbase = old_fee, vsize, vsize, False
    def resign(index_n=None):
        v, t.vsize = t.vsize, 0          # (update_totals also derives fee_per_kb with float arithmetic: not part of the claim)
        T.Transaction.update_totals(t)
        t.vsize = v
    t.sign_and_update = resign
    if mode == 'default':
        # default bump uses float arithmetic (1.03 ** n): outside the integer model
        ex.cut('default multiplier bump uses float arithmetic')
    try:
        if mode == 'fee':
            T.Transaction.bumpfee(t, fee=arg)
        else:
            T.Transaction.bumpfee(t, extra_fee=arg)
    except T.TransactionError:
        same = s_and(len(t.outputs) == len(outs), t.fee == old_fee, *[o.value == v for o, v in zip(outs, [pay] + chg)])
        ex.check(same, 'refused-bump-leaves-transaction-unchanged')
        return
    requested = arg if mode == 'fee' else old_fee + arg
    tot_out = sum(o.value for o in t.outputs)
    ex.check(total_in == tot_out + t.fee, 'inputs-equal-outputs-plus-reported-fee')
    ex.check(s_and(*[o.value >= 0 for o in t.outputs]), 'no-negative-output')
    ex.check(recipient in t.outputs and recipient.value == pay, 'recipient-output-untouched')
    ex.check(s_and(*[o.value <= v for o, v in zip(outs[1:], chg)]), 'change-outputs-only-shrink')
    ex.check(t.fee >= old_fee + vsize, 'fee-increased-by-at-least-the-minimum')
    ex.check(t.fee >= requested, 'fee-at-least-the-requested-fee')
    # no more than the requested fee is taken unless a whole change output smaller than twice the missing amount is dropped
    ex.check(s_or(t.fee == requested, len(t.outputs) < len(outs)), 'fee-exceeds-request-only-when-a-change-output-is-dropped')


# ---------------------------------------------------------------------------------------------------------------
# coin selection: the real Wallet.select_inputs over a stand-in database (symx.sqlmini evaluates the SQLAlchemy filters)

def _wallet(ex, utxo_rows, key_rows=None):
    import bitcoinlib.wallets as WL
    from symx import sqlmini
    wrow = sqlmini.Row(id=1, name='w', owner='', network_name='bitcoin', purpose=84, scheme='bip32', main_key_id=None, default_account_id=0,
                       multisig_n_required=1, sort_keys=False, witness_type='segwit', encoding='bech32', multisig=False, cosigner_id=None,
                       key_path="m/purpose'/coin_type'/account'/change/address_index", parent_id=None, anti_fee_sniping=False)
    acc = sqlmini.Row(id=1, wallet_id=1, purpose=84, depth=3, network_name='bitcoin', account_id=0, public=b'\x02' + b'\x11' * 32, wallet=wrow)
    tables = {'wallets': [wrow], 'keys': [acc] + list(key_rows or []), 'transaction_outputs': utxo_rows}
    session = sqlmini.Session(tables)
    real_query = session.query

    def query(*ents):
        q = real_query(*ents)
        if q.table == 'wallets' and len(ents) == 1:
            # Wallet.__init__: the wallet row by id / the (absent) cosigner wallets
            class _W(sqlmini.Query):
                def filter(self, *a):
                    return sqlmini.Query(self.session, 'wallets', [])
            return _W(session, 'wallets', [wrow])
        return q
    session.query = query
    w = WL.Wallet(1, session=session)
    return w


UTXO_ADDR = 'bc1qw508d6qejxtdg4y5r3zarvary0c5xw7kv8f3t4'           # p2wpkh address of the generator point key (BIP173 example)
RECIPIENT = 'bc1qar0srrr7xfkvy5l643lydnw9re59gtzzwf5mdq'          # BIP173 example address (not a wallet key)
CHANGE_ADDR = 'bc1qrp33g0q5c5txsp9arysrx4k6zdkfs4nce4xj0gdcccefvpysxf3qccfmv3'


def mk_utxos(ex, n):
    from symx import sqlmini
    rows = []
    for i in range(n):
        tx = sqlmini.Row(id=i + 1, wallet_id=1, account_id=0, network_name='bitcoin', confirmations=ex.lint('confirmations%d' % i, 0, 10),
                         txid=bytes([i + 1]) * 32)
        key = sqlmini.Row(id=10 + i, public=b'\x02' + bytes([i + 1]) * 32, address=UTXO_ADDR, witness_type='segwit', path='m', compressed=True,
                          network_name='bitcoin')
        rows.append(sqlmini.Row(_tag='utxo%d' % i, transaction=tx, key=key, key_id=10 + i, output_n=0, script_type='p2wpkh',
                                value=ex.lint('value%d' % i, 0, MAXV), spent=ex.choose('spent%d' % i, [False, True]), transaction_id=i + 1))
    return rows


def _real_wallet_with_utxos(ex, n):
    """replay: a real sqlite wallet holding the recorded UTXO set"""
    import tempfile
    from bitcoinlib.wallets import Wallet
    from bitcoinlib.db import DbTransactionOutput, DbTransaction
    d = tempfile.mkdtemp(prefix='c07w')
    w = Wallet.create('w', network='bitcoin', witness_type='segwit', db_uri='sqlite:///%s/w.db' % d)
    rows = []
    for i in range(n):
        k = w.new_key()
        val, conf, spent = int(ex.lint('value%d' % i, 0, MAXV)), int(ex.lint('confirmations%d' % i, 0, 10)), ex.choose('spent%d' % i, [False, True])
        txid = (bytes([i + 1]) * 32).hex()
        if val > 0:
            w.utxos_update(utxos=[dict(address=k.address, script='', confirmations=conf, output_n=0, txid=txid, value=val)])
        if spent and val > 0:
            o = w.session.query(DbTransactionOutput).join(DbTransaction).filter(DbTransaction.txid == bytes.fromhex(txid)).first()
            o.spent = True
            w.session.commit()
        rows.append(dict(txid=bytes.fromhex(txid), value=val, confirmations=conf, spent=spent or val == 0))
    return w, rows, d


def h_select_inputs(ex, n):
    """Wallet.select_inputs(amount, max_utxos=.., min_confirms=..) over EVERY set of n UTXOs (any values, any
    confirmation counts, spent or not): the selection consists of distinct unspent, sufficiently confirmed, non-dust
    outputs of the wallet, covers the amount and respects max_utxos.  (That an empty answer means 'no admissible subset'
    is NOT demanded: C07 only asks that insufficient funds fail, and the library's confirmations-first ordering can
    miss a sufficient pair under a max_utxos cap - observed, not a violation of the statement.)"""
    import bitcoinlib.wallets as WL
    amount = ex.lint('amount', 1, MAXV)
    min_confirms = ex.lint('min_confirms', 0, 3) if not ex.concrete else int(ex.lint('min_confirms', 0, 3))
    max_utxos = ex.choose('max_utxos', [None, 1, 2])
    scratch = None
    DUST = 1000
    if ex.concrete:
        w, rows, scratch = _real_wallet_with_utxos(ex, n)
        amount = int(amount)
    else:
        utx = mk_utxos(ex, n)
        w = _wallet(ex, utx)
    try:
        try:
            sel = w.select_inputs(amount, min_confirms=min_confirms, max_utxos=max_utxos, return_input_obj=False)
            refused = False
        except WL.WalletError:
            sel, refused = [], True
        if ex.concrete:
            def rec(u):
                return [r for r in rows if r['txid'] == u.transaction.txid][0]
            picked = [rec(u) for u in sel]
        else:
            picked = [dict(row=u, value=u.value, confirmations=u.transaction.confirmations, spent=u.spent) for u in sel]
        for k, r in enumerate(picked):
            ex.check(s_and(r['spent'] is False, r['confirmations'] >= min_confirms, r['value'] >= DUST), 'selected-outputs-are-unspent-confirmed-non-dust')
        ids = [id(r.get('row', None)) if 'row' in r else r['txid'] for r in picked]
        ex.check(len(set(ids)) == len(ids), 'selected-outputs-are-distinct')
        if picked:
            ex.check(sum(r['value'] for r in picked) >= amount, 'selection-covers-the-amount')
            ex.check(max_utxos is None or len(picked) <= max_utxos, 'selection-respects-max-utxos')
    finally:
        if scratch:
            try:
                w.session.close()
            except Exception:
                pass
            __import__('shutil').rmtree(scratch, ignore_errors=True)


class _FakeService:
    fee_per_kb = 2000

    def __init__(self, *a, **k):
        pass

    def blockcount(self):
        return 0

    def estimatefee(self, *a, **k):
        return _FakeService.fee_per_kb


class _ChangeKey:
    def __init__(self, key_id):
        self.key_id, self.address = key_id, CHANGE_ADDR


def h_create(ex, n, explicit=False, auto_fee=False):
    """Wallet.transaction_create([(recipient, amount)], fee=<explicit integer>) over every set of n UTXOs: on success
    inputs = outputs + reported fee, the fee is not negative and is at least the requested one, no output is negative,
    the recipient appears exactly once with the requested amount, every other output is a change output of this wallet,
    the inputs are distinct unspent confirmed outputs of the wallet; with insufficient funds the request is refused"""
    import bitcoinlib.wallets as WL
    import bitcoinlib.transactions as T
    import random as _random
    amount = ex.lint('amount', 1, MAXV)
    fee = ex.lint('fee', 0, 10 ** 9) if not auto_fee else None
    rate = ex.lint('provider_fee_per_kb', 1, 10 ** 7) if auto_fee else 2000
    max_utxos = ex.choose('max_utxos', [None, 1])
    scratch = None
    if ex.concrete:
        w, rows, scratch = _real_wallet_with_utxos(ex, n)
        w.anti_fee_sniping = False
        amount, fee = int(amount), (int(fee) if fee is not None else None)
        if auto_fee:
            import bitcoinlib.wallets as _WL
            _FakeService.fee_per_kb = int(rate)
            _WL.Service = _FakeService              # (replay: the provider answer is the recorded fee rate)
        total_avail = sum(r['value'] for r in rows if not r['spent'] and r['confirmations'] >= 1 and r['value'] >= 1000)
    else:
        utx = mk_utxos(ex, n)
        ex.assume(sum(u.value for u in utx) <= MAXV)
        w = _wallet(ex, utx)
        pubkey = WL.HDKey(b'\x02' + bytes.fromhex('79be667ef9dcbbac55a06295ce870b07029bfcdb2dce28d959f2815b16f81798'), witness_type='segwit')
        w._objects_by_key_id = lambda key_id: ([pubkey], [u.key for u in utx if u.key_id == key_id][0])
        w.get_keys = lambda *a, **k: [_ChangeKey(99)]
        w.get_key = lambda *a, **k: _ChangeKey(99)
        _FakeService.fee_per_kb = rate
        shims.install(WL, Service=_FakeService, random=_random.Random(7))
        shims.install(T, random=_random.Random(7))
        shims.install(WL.WalletTransaction, signature_hash=lambda self, *a, **k: b'\x00' * 32)
        total_avail = sum(u.value for u in utx if not u.spent and bool(u.transaction.confirmations >= 1) and bool(u.value >= 1000))
    try:
        try:
            if explicit:
                # the caller names the outputs to spend (all n of them); values are looked up in the database
                arr = [(bytes([i + 1]) * 32, 0) for i in range(n)]
                t = w.transaction_create([(RECIPIENT, amount)], input_arr=arr, fee=fee, number_of_change_outputs=1)
            else:
                t = w.transaction_create([(RECIPIENT, amount)], fee=fee, max_utxos=max_utxos, number_of_change_outputs=1)
        except WL.WalletError:
            return                      # refusing is always allowed by the statement (C07 demands refusal when funds are short)
        ins, outs = t.inputs, t.outputs
        tin, tout = sum(i.value for i in ins), sum(o.value for o in outs)
        ex.check(tin == tout + t.fee, 'inputs-equal-outputs-plus-reported-fee')
        ex.check(s_and(t.fee >= 0, t.fee >= fee) if fee is not None else t.fee >= 0, 'fee-not-negative-and-at-least-requested')
        if fee is None:
            fee = t.fee
        ex.check(s_and(*[o.value >= 0 for o in outs]), 'no-negative-output')
        rec = [o for o in outs if o.address == RECIPIENT]
        ex.check(len(rec) == 1 and rec[0].value == amount, 'recipient-once-with-exact-amount')
        others = [o for o in outs if o.address != RECIPIENT]
        ex.check(all(o.change and o.key_id is not None for o in others), 'other-outputs-are-change-of-this-wallet')
        ex.check(len(set((bytes(i.prev_txid), int(i.output_n_int)) for i in ins)) == len(ins), 'inputs-are-distinct')
        if explicit:
            ex.check(len(ins) == n, 'explicit-inputs-are-the-named-outputs')
            ex.check(amount + fee <= tin, 'insufficient-funds-are-refused')
        else:
            ex.check(tin <= total_avail, 'inputs-come-from-the-admissible-unspent-set')
            ex.check(amount + fee <= total_avail, 'insufficient-funds-are-refused')
    finally:
        if scratch:
            try:
                w.session.close()
            except Exception:
                pass
            __import__('shutil').rmtree(scratch, ignore_errors=True)


class _In:
    def __init__(self, txid, n, value):
        self.prev_txid, self.output_n_int, self.value = txid, n, value
        # (the 4-byte form of the index; for a symbolic index an opaque value that, like bytes, never equals an int)
        self.output_n = n.to_bytes(4, 'big') if isinstance(n, int) else ('bytes-of', n)


class _HW:
    """stand-in for the wallet behind a WalletTransaction: utxos() returns the given list"""
    multisig, multisig_n_required, sort_keys = False, 1, False

    def __init__(self, utxos):
        self._u = utxos

    def utxos(self, *a, **k):
        return list(self._u)

    def _objects_by_key_id(self, key_id):
        class K:
            compressed, witness_type = True, 'segwit'
        return [], K()


def h_add_input_from_wallet(ex, n):
    """WalletTransaction.add_input_from_wallet (used by the wallet-level bumpfee): the input it adds is an unspent
    output of the wallet that the transaction does not spend already, worth at least the requested minimum"""
    import bitcoinlib.wallets as WL
    import bitcoinlib.transactions as T
    T1, T2 = bytes([0x11]) * 32, bytes([0x22]) * 32
    have_n = ex.lint('spent_output_n', 0, 2 ** 32 - 1)
    have_n = int(have_n) if ex.concrete else have_n
    amount_min = ex.lint('amount_min', 1, MAXV)
    utx = []
    for i in range(n):
        tid = ex.choose('utxo%d_txid' % i, ['11' * 32, '22' * 32])
        on, val = ex.lint('utxo%d_output_n' % i, 0, 2 ** 32 - 1), ex.lint('utxo%d_value' % i, 0, MAXV)
        if ex.concrete:
            on, val = int(on), int(val)
        utx.append(dict(txid=tid, output_n=on, value=val, key_id=1, script_type='p2wpkh', address=UTXO_ADDR))
    if ex.concrete:
        amount_min = int(amount_min)
    t = WL.WalletTransaction.__new__(WL.WalletTransaction)
    t.hdwallet, t.account_id, t.network, t.witness_type, t.txid = _HW(utx), 0, WL.Network('bitcoin'), 'segwit', 'ab' * 32
    t.inputs = [_In(T1, have_n, 5000)]
    added = []
    t.add_input = lambda txid, output_n, **kw: added.append((txid, output_n, kw.get('value')))
    try:
        t.add_input_from_wallet(amount_min=amount_min)
    except T.TransactionError:
        for u in utx:
            ex.check(s_or(u['value'] < amount_min, s_and(u['txid'] == '11' * 32, u['output_n'] == have_n)), 'refused-only-without-an-unused-admissible-output')
        return
    ex.check(len(added) == 1, 'one-input-added')
    txid, on, val = added[0]
    ex.check(s_not(s_and(txid == '11' * 32, on == have_n)), 'added-input-is-not-already-spent-by-this-transaction')
    ex.check(val >= amount_min, 'added-input-has-the-minimum-value')
    ex.check(s_or(*[s_and(u['txid'] == txid, u['output_n'] == on, u['value'] == val) for u in utx]), 'added-input-is-an-unspent-output-of-the-wallet')


class _FakeTx:
    def __init__(self, fee, fee_exact):
        self.fee, self._fx, self.fee_per_kb, self.change, self.vsize = fee, fee_exact, 2000, 5000, 141

    def calculate_fee(self):
        return self._fx

    def sign(self, *a, **k):
        pass

    def raw(self):
        return b'\x00' * 10

    def calc_weight_units(self):
        pass

    def signature_hash(self):
        return b'\x00' * 32

    def send(self, *a, **k):
        pass


def h_send_forwards_request(ex):
    """Wallet.send: every transaction_create call it makes - also the second one after a fee estimate that was more than
    10% off - carries the caller's outputs, inputs, account, network, min_confirms, max_utxos, locktime and
    change-output settings"""
    import inspect
    import bitcoinlib.wallets as WL
    min_confirms = ex.lint('min_confirms', 0, 1000)
    max_utxos = ex.choose('max_utxos', [None, 1, 7])
    locktime = ex.lint('locktime', 0, 2 ** 32 - 1)
    nchange = ex.choose('number_of_change_outputs', [0, 1, 3])
    est, exact = ex.choose('estimate_vs_exact_fee', [(1000, 1000), (1000, 1050), (1000, 2000), (3000, 1500)])
    if ex.concrete:
        min_confirms, locktime = int(min_confirms), int(locktime)
    w = WL.Wallet.__new__(WL.Wallet)
    w.network = WL.Network('bitcoin')
    real_sig = inspect.signature(WL.Wallet.transaction_create)
    calls = []

    def spy(*a, **k):
        calls.append(real_sig.bind(w, *a, **k).arguments)
        return _FakeTx(est, exact)
    w.transaction_create = spy
    outs = [(RECIPIENT, 12345)]
    w.send(outs, input_key_id=5, account_id=2, network='bitcoin', min_confirms=min_confirms, max_utxos=max_utxos, locktime=locktime,
           number_of_change_outputs=nchange, random_output_order=False, replace_by_fee=True)
    recreate = abs((float(est) - float(exact)) / float(exact)) > 0.10
    ex.check(len(calls) == (2 if recreate else 1), 'recreated-iff-estimate-more-than-10-percent-off')
    want = dict(output_arr=outs, input_arr=None, input_key_id=5, account_id=2, network='bitcoin', min_confirms=min_confirms, max_utxos=max_utxos,
                locktime=locktime, number_of_change_outputs=nchange, random_output_order=False, replace_by_fee=True)
    for k, c in enumerate(calls):
        sig = real_sig.bind(w, **{kk: vv for kk, vv in c.items() if kk != 'self'})
        sig.apply_defaults()
        got = sig.arguments
        for name, v in want.items():
            ex.check(got[name] == v if not isinstance(v, (list, type(None))) else (got[name] is v or got[name] == v), 'send-forwards-%s-to-every-create-call' % name.replace('_', '-'))
        ex.check(got['fee'] is None if k == 0 else got['fee'] == exact, 'send-fee-argument')


def wsetup(ex):
    setup(ex)
    lia.COARSE_DIV = True            # int(a * 1000.0 / b): floor or floor + 1 (sound over-approximation, see symx.lia.SFloatQ)
    from harness import c17          # (registers SFloat.is_integer)
    import bitcoinlib.wallets as WL
    from harness import c12
    import bitcoinlib.transactions as T
    import bitcoinlib.values as V
    shims.install(WL, int=lia.IntShimL, float=lia.FloatShim, _logger=c12.NullLog(), logger=c12.NullLog())
    shims.install(T, float=lia.FloatShim)
    shims.install(V, int=lia.IntShimL, float=lia.FloatShim)
    shims.rewrite_function(WL.Wallet, 'transaction_create')      # ('...%d...' % amount in error messages stays symbolic)


def jobs(tier):
    q = tier == 'quick'
    J = [Job('bumpfee_%dchange' % n, h_bumpfee, W=8, setup=setup, params=dict(nchange=n), budget_s=3000)
         for n in ([0, 1, 2, 3, 4, 5] if q else [0, 1, 2, 3, 4, 5, 6, 7])]
    J += [Job('select_inputs_%dutxos' % n, h_select_inputs, W=8, setup=wsetup, params=dict(n=n), budget_s=3000)
          for n in ([1, 2, 3] if q else [1, 2, 3, 4])]
    J += [Job('add_input_from_wallet_%dutxos' % n, h_add_input_from_wallet, W=8, setup=wsetup, params=dict(n=n)) for n in (1, 2)]
    J.append(Job('send_forwards_request', h_send_forwards_request, W=8, setup=wsetup))
    J += [Job('create_explicit_inputs_%d' % n, h_create, W=8, setup=wsetup, params=dict(n=n, explicit=True), budget_s=3000) for n in (1, 2)]
    J += [Job('create_auto_fee_%dutxos' % n, h_create, W=8, setup=wsetup, params=dict(n=n, auto_fee=True), budget_s=3000) for n in [1, 2]]
    J += [Job('create_%dutxos' % n, h_create, W=8, setup=wsetup, params=dict(n=n), budget_s=3000) for n in ([1, 2] if q else [1, 2, 3])]
    return J
