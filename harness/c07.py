"""C07 - wallet-created transactions conserve value: the fee-bump arithmetic (Transaction.bumpfee + update_totals).

Real code executed symbolically: Transaction.bumpfee, Transaction.update_totals on skeleton objects (inputs / outputs
carry only value and change flag; re-signing is replaced by the real update_totals).
Coin selection and Wallet.transaction_create are SQLAlchemy-backed and are NOT encoded (see OUTSIDE)."""
from symx import core, shims, lia
from symx.core import SInt, s_and, s_or, s_not
from vtlib.api import Job, kf

PROPERTY = 'C07'
ASSUMPTIONS = ['re-signing (sign_and_update) is replaced by the real Transaction.update_totals: signatures do not influence amounts',
               'amounts, fees and sizes are arbitrary integers in the stated ranges']
BOUNDS = {'quick': 'one input, one recipient output and 0..5 change outputs, every amount 0..21e14, every old fee >= 1, vsize 60..100000, fee / extra_fee arguments 0..10^12 (also the default bump)',
          'thorough': 'same with 0..7 change outputs'}
OUTSIDE = 'Wallet.select_inputs, Wallet.transaction_create / send / sweep (SQLAlchemy queries, provider fee estimates), fee-rate limits, WalletTransaction.bumpfee wrapper'
MAXV = 21 * 10 ** 14


class O:
    def __init__(self, v, change):
        self.value, self.change = v, change


class I:
    def __init__(self, v):
        self.value = v


def setup(ex):
    import bitcoinlib.transactions as T
    shims.install(T, int=lia.IntShimL)


def h_bumpfee(ex, nchange):
    import bitcoinlib.transactions as T
    pay = ex.lint('pay', 1, MAXV)
    chg = [ex.lint('change%d' % k, 0, MAXV) for k in range(nchange)]
    old_fee = ex.lint('old_fee', 1, 10 ** 9)
    vsize = ex.lint('vsize', 60, 100000)
    mode = ex.choose('mode', ['fee', 'extra_fee', 'default'])
    arg = ex.lint('arg', 1, 10 ** 12) if mode != 'default' else 0
    total_in = pay + sum(chg) + old_fee
    ex.assume(total_in <= MAXV)
    t = T.Transaction.__new__(T.Transaction)
    t.inputs = [I(total_in)]
    recipient = O(pay, False)
    outs = [recipient] + [O(c, True) for c in chg]
    t.outputs = list(outs)
    t.fee, t.vsize, t.size, t.coinbase = old_fee, vsize, vsize, False
    def resign(index_n=None):
        v, t.vsize = t.vsize, 0          # (update_totals also derives fee_per_kb with float arithmetic: not part of the claim)
        T.Transaction.update_totals(t)
        t.vsize = v
    t.sign_and_update = resign
    if mode == 'default':
        # default bump uses float arithmetic (1.03 ** n): outside the integer model
        ex.cut('default multiplier bump uses float arithmetic')
    try:
        if mode == 'fee':
            T.Transaction.bumpfee(t, fee=arg)
        else:
            T.Transaction.bumpfee(t, extra_fee=arg)
    except T.TransactionError:
        same = s_and(len(t.outputs) == len(outs), t.fee == old_fee, *[o.value == v for o, v in zip(outs, [pay] + chg)])
        ex.check(same, 'refused-bump-leaves-transaction-unchanged')
        return
    requested = arg if mode == 'fee' else old_fee + arg
    tot_out = sum(o.value for o in t.outputs)
    ex.check(total_in == tot_out + t.fee, 'inputs-equal-outputs-plus-reported-fee')
    ex.check(s_and(*[o.value >= 0 for o in t.outputs]), 'no-negative-output')
    ex.check(recipient in t.outputs and recipient.value == pay, 'recipient-output-untouched')
    ex.check(s_and(*[o.value <= v for o, v in zip(outs[1:], chg)]), 'change-outputs-only-shrink')
    ex.check(t.fee >= old_fee + vsize, 'fee-increased-by-at-least-the-minimum')
    ex.check(t.fee >= requested, 'fee-at-least-the-requested-fee')
    # no more than the requested fee is taken unless a whole change output smaller than twice the missing amount is dropped
    ex.check(s_or(t.fee == requested, len(t.outputs) < len(outs)), 'fee-exceeds-request-only-when-a-change-output-is-dropped')


def jobs(tier):
    q = tier == 'quick'
    return [Job('bumpfee_%dchange' % n, h_bumpfee, W=8, setup=setup, params=dict(nchange=n), budget_s=3000)
            for n in ([0, 1, 2, 3, 4, 5] if q else [0, 1, 2, 3, 4, 5, 6, 7])]
