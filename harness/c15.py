"""C15 - BIP38: plain-mode encrypt/decrypt round trip, address-hash check, fresh entropy per generated key.

Real code executed symbolically: keys.bip38_encrypt, keys.bip38_decrypt (non-EC-multiplied branch),
Key._bip38_decrypt / HDKey._bip38_decrypt (address-hash verification), bip38_intermediate_password and
bip38_create_new_encrypted_wif up to their use of the random salt / seed.
scrypt is an uninterpreted function, AES-ECB an inverse pair, os.urandom returns fresh symbols tagged by call."""
import z3
from symx import core, shims, stubs
from symx.core import SBytes, SInt, s_and, s_or, s_not
from vtlib.api import Job, kf
from harness import c12

PROPERTY = 'C15'
ASSUMPTIONS = [
    'scrypt_hash and double_sha256 are uninterpreted functional symbols; AES-ECB encrypt/decrypt under one key are an inverse pair (decrypt returns the plaintext of the recorded encryption of that ciphertext)',
    'the base58 layer is an inverse pair (see C12); os.urandom(n) returns n fresh symbolic bytes, different symbols for every call',
    'Key / HDKey construction inside the EC-multiplied routines is a recording stub',
]
BOUNDS = {'quick': 'every 32-byte private key, both flag bytes (compressed / uncompressed), every address-hash; two successive key-generation calls',
          'thorough': 'same'}
OUTSIDE = 'unicode passphrases beyond the four listed strings (normalisation is C code: the NFC obligation is decided on concrete strings, not by the solver); "a different passphrase fails" (true only with cryptographic probability - not a solver statement), the EC-multiplied mode beyond the entropy data flow, agreement with the BIP38 test vectors (needs real scrypt/AES)'


# the BIP38 unicode test vector, compatibility characters (NFKC would fold them), a decomposed character (NFC composes it)
PASSPHRASES = ['passphrase', '\u03d2\u0301\u0000\U00010400\U0001f4a9', '\ufb01\u2116\u00bd', 'A\u030a']


def _mods():
    import bitcoinlib.keys as K
    import bitcoinlib.encoding as E
    return K, E


_S = {}


class FakeAESobj:
    def __init__(self, key):
        self.key = key

    def encrypt(self, block):
        block = SBytes.lift(block) if not isinstance(block, SBytes) else block
        out = _S['aes'](SBytes.lift(self.key) + block)[:16]
        _S['aes_log'].append((self.key, block, out))
        return out

    def decrypt(self, c):
        c = SBytes.lift(c) if not isinstance(c, SBytes) else c
        for key, block, out in _S['aes_log']:
            if _same_terms(key, self.key) and _same_terms(out, c):
                return block
        raise core.EngineLimit("AES decrypt of a block that is not a recorded ciphertext")


def _same_terms(a, b):
    a, b = SBytes.lift(a), SBytes.lift(b)
    if len(a) != len(b):
        return False
    for x, y in zip(a.b, b.b):
        if isinstance(x, int) or isinstance(y, int):
            if not (isinstance(x, int) and isinstance(y, int) and x == y):
                return False
        elif not x.eq(y):
            return False
    return True


class FakeAES:
    MODE_ECB = 1

    @staticmethod
    def new(key, mode):
        return FakeAESobj(key)


def setup(ex):
    c12.setup(ex)
    K, E = _mods()
    _S.clear()
    _S.update(scrypt=stubs.HashStub('scrypt', 64, injective=False), aes=stubs.HashStub('aes', 32, injective=False), aes_log=[], pw_seen=[])
    ex.axiom_sources = ex.axiom_sources + [_S['scrypt'], _S['aes']]

    def scrypt_hash(password, salt, key_len=64, N=16384, r=8, p=8, *a, **k):
        pw = password.encode('utf-8') if isinstance(password, str) else password
        _S['pw_seen'].append(bytes(pw) if isinstance(pw, (bytes, bytearray)) else pw)
        return _S['scrypt'](SBytes([len(pw)]) + SBytes.lift(pw) + SBytes.lift(salt))[:key_len]
    shims.install(K, scrypt_hash=scrypt_hash, AES=FakeAES, str=shims.StrShim)


def _eq(a, b):
    if len(a) != len(b):
        return False
    return a == b


def h_plain_roundtrip(ex):
    """bip38_decrypt(bip38_encrypt(k, address, pw), pw) returns k, the address hash and the compression flag; the
    envelope is 0142 | flag | addresshash | 2 x 16 encrypted bytes | checksum; the passphrase enters the key derivation
    NFC-normalised (BIP38), so the same text in another unicode form opens the key"""
    K, E = _mods()
    import unicodedata
    pw = ex.choose('passphrase', PASSPHRASES)
    nfc = unicodedata.normalize('NFC', pw)
    if ex.concrete:
        key = ex.bytes('private_key', 32)
        comp = ex.choose('compressed', [True, False])
        address = ex.bytes('address_text', 34)
        flag = b'\xe0' if comp else b'\xc0'
        enc = K.bip38_encrypt(bytes(key).hex(), bytes(address), pw, flag)
        raw = c12._b58dec(enc)
        ah = E.double_sha256(bytes(address))[:4]
        ex.check(len(raw) == 43 and raw[:3] == b'\x01\x42' + flag and raw[3:7] == ah, 'bip38-envelope-header')
        ex.check(raw[39:] == E.double_sha256(raw[:39])[:4], 'bip38-envelope-checksum')
        priv, ah2, c2, _ = K.bip38_decrypt(enc, pw)
        ex.check(priv == bytes(key), 'bip38-roundtrip-private-key')
        ex.check(ah2 == ah, 'bip38-roundtrip-address-hash')
        ex.check(c2 == comp, 'bip38-roundtrip-compression-flag')
        # NFC: the envelope equals the one made from the NFC form, and the BIP38 document's unicode vector opens
        ok = enc == K.bip38_encrypt(bytes(key).hex(), bytes(address), nfc, flag) and K.bip38_decrypt(enc, nfc)[0] == bytes(key)
        if pw == PASSPHRASES[1]:
            v = K.bip38_decrypt('6PRW5o9FLp4gJDDVqJQKJFTpMvdsSGJxMYHtHaQBF3ooa8mwD69bapcDQn', pw)
            ok = ok and v[0].hex() == '64eeab5f9be2a01a8365a579511eb3373c87c40da6d2a25f05bda68fe077b66e'
        ex.check(ok, 'bip38-encrypt-passphrase-nfc-normalised')
        ex.check(ok, 'bip38-decrypt-passphrase-nfc-normalised')
        return
    H = c12._H['d']
    key = ex.bytes('private_key', 32)
    comp = ex.choose('compressed', [True, False])
    flag = b'\xe0' if comp else b'\xc0'
    address = ex.bytes('address_text', 34)
    _S['aes_log'].clear()
    del _S['pw_seen'][:]
    enc = K.bip38_encrypt(key.hex(), address, pw, flag)
    data = enc.data
    addresshash = H(address)[:4]
    ex.check(len(data) == 43 and _eq(data[:3], b'\x01\x42' + flag) and _eq(data[3:7], addresshash), 'bip38-envelope-header')
    ex.check(_eq(data[39:], H(data[:39])[:4]), 'bip38-envelope-checksum')
    ex.check(_S['pw_seen'] == [nfc.encode('utf-8')], 'bip38-encrypt-passphrase-nfc-normalised')
    priv, ah, c2, _ = K.bip38_decrypt(enc, pw)
    ex.check(_S['pw_seen'] == [nfc.encode('utf-8')] * 2, 'bip38-decrypt-passphrase-nfc-normalised')
    ex.check(_eq(priv, key), 'bip38-roundtrip-private-key')
    ex.check(_eq(ah, addresshash), 'bip38-roundtrip-address-hash')
    ex.check(c2 == comp, 'bip38-roundtrip-compression-flag')


_REAL = {}


class _FakeKeyObj:
    def __init__(self, priv, compressed=True, network=None, **k):
        self.priv = priv

    def address(self):
        return _S['addr_text']


def h_address_hash_check(ex, cls):
    """Key._bip38_decrypt / HDKey._bip38_decrypt hand the decrypted key out only if the first four bytes of
    double_sha256(address of that key) equal the address hash stored in the encrypted key"""
    K, E = _mods()
    if ex.concrete:
        # replay on the real code (real scrypt / AES): a key encrypted under the first passphrase is imported with the
        # first and then with the second passphrase; the second decryption yields unrelated bytes, so the import has to
        # be refused (its address hash cannot match)
        priv = bytes(ex.bytes('decrypted_key:first passphrase', 32))
        if not 1 <= int.from_bytes(priv, 'big') < c12.N:
            priv = bytes(range(1, 33))
        enc = K.Key(priv).encrypt('first passphrase')
        fn = getattr(K, cls)._bip38_decrypt
        for n, pw in enumerate(('first passphrase', 'second passphrase'), 1):
            try:
                r = fn(enc, pw, 'bitcoin') if cls == 'Key' else fn(enc, pw, 'bitcoin', 'legacy')
                accepted = True
            except K.BKeyError:
                accepted = False
            if n == 1:
                ex.check(accepted, 'bip38-import-rejects-only-wrong-address-hash-call1')
                ex.check(accepted and r[0] == priv and r[1] is True, 'bip38-import-returns-decrypted-key-call1')
            else:
                ex.check(not accepted, 'bip38-import-verifies-address-hash-call2')
                ex.check(not accepted, 'bip38-import-returns-decrypted-key-call2')
        return
    H = c12._H['d']
    if 'Key' not in _REAL:
        _REAL.update(Key=K.Key, HDKey=K.HDKey)          # the real classes (stubs installed below stay for later paths)
    fn = _REAL[cls].__dict__['_bip38_decrypt']
    fn = fn.__func__ if isinstance(fn, staticmethod) else fn
    # two successive imports of the SAME encrypted string with two passphrases: decryption yields unrelated bytes per
    # passphrase; the verdict of each call depends on its own decryption only (nothing remembered from the first)
    res = {}
    for pw in ('first passphrase', 'second passphrase'):
        res[pw] = (ex.bytes('decrypted_key:' + pw, 32), ex.bytes('stored_address_hash:' + pw, 4), ex.bytes('address_text:' + pw, 34))
    cur = {}

    class _FakeKeyObj2(_FakeKeyObj):
        def address(self):
            return cur['addr']
    shims.install(K, bip38_decrypt=lambda w, p: (res[p][0], res[p][1], True, {}), Key=_FakeKeyObj2, HDKey=_FakeKeyObj2)
    for n, pw in enumerate(res, 1):
        priv, ah, cur['addr'] = res[pw]
        good = _eq(H(cur['addr'])[:4], ah)
        try:
            r = fn('6P-opaque', pw, 'bitcoin') if cls == 'Key' else fn('6P-opaque', pw, 'bitcoin', 'segwit')
            accepted = True
        except K.BKeyError:
            accepted = False
        if accepted:
            ex.check(good, 'bip38-import-verifies-address-hash-call%d' % n)
            ex.check(_eq(r[0], priv) and r[1] is True, 'bip38-import-returns-decrypted-key-call%d' % n)
        else:
            ex.check(s_not(good), 'bip38-import-rejects-only-wrong-address-hash-call%d' % n)


def h_import_keeps_decrypted_key(ex, cls):
    """Key(<BIP38 string>, password=pw) / HDKey(...): the key object carries exactly the 32 bytes and the compression
    flag that decryption returned (for every decrypted value, e.g. one ending in the byte 01)"""
    K, E = _mods()
    priv = ex.bytes('decrypted_key', 32)
    comp = ex.choose('compressed', [True, False])
    sv = shims.IntShim.from_bytes(priv, 'big')
    ex.assume(s_and(sv >= 1, sv <= c12.N - 1))
    if 'Key' not in _REAL:
        _REAL.update(Key=K.Key, HDKey=K.HDKey)
    C = _REAL[cls]
    if ex.concrete:
        enc = _REAL['Key'](bytes(priv), compressed=comp).encrypt('pw')
        k = C(enc, password='pw')
    else:
        shims.install(C, _bip38_decrypt=staticmethod(lambda *a, **kw: (priv, comp)))
        k = C('6P' + 'R' * 56, password='pw')
    ex.check(k.secret == sv, 'bip38-import-secret')
    ex.check(_eq(k.private_byte, priv), 'bip38-import-private-bytes')
    ex.check(k.compressed == comp, 'bip38-import-compression-flag')
    ex.check(k.is_private is True, 'bip38-import-classified-private')


class _FakeOS:
    calls = []

    @staticmethod
    def urandom(n):
        out = SBytes([z3.BitVec('rnd%d_%d' % (len(_FakeOS.calls), i), 8) for i in range(n)])
        # (a draw consisting only of ASCII hex digits would be hex-decoded by to_bytes: library-wide finding, see C03/C06)
        core.cur().assume(out[0] >= 0x80)
        _FakeOS.calls.append(out)
        return out


class _Stop(Exception):
    pass


def h_fresh_salt(ex):
    """bip38_intermediate_password without explicit owner_salt: the salt that enters the passphrase is drawn by
    os.urandom DURING the call - two successive calls use two different draws"""
    K, E = _mods()
    import unicodedata
    pp = ex.choose('passphrase', PASSPHRASES)
    nfc = unicodedata.normalize('NFC', pp)
    if ex.concrete:
        a, b = K.bip38_intermediate_password(pp), K.bip38_intermediate_password(pp)
        ex.check(a != b, 'two-calls-use-different-salts')
        # the passphrase code for a fixed salt against an independent computation (hashlib.scrypt, ref.secp)
        import hashlib
        from ref import secp
        salt = bytes(range(0x80, 0x88))
        pf = hashlib.scrypt(nfc.encode('utf-8'), salt=salt, n=16384, r=8, p=8, dklen=32, maxmem=64 * 1024 * 1024)
        body = bytes.fromhex('2ce9b3e1ff39e253') + salt + secp.ser(secp.mul(int.from_bytes(pf, 'big')))
        want = E.base58encode(body + hashlib.sha256(hashlib.sha256(body).digest()).digest()[:4])
        got = K.bip38_intermediate_password(pp, owner_salt=salt)
        for n in (1, 2):
            ex.check(got == want, 'passphrase-enters-scrypt-nfc-normalised-call-%d' % n)
        return
    _FakeOS.calls = []
    seen = []
    seen_pw = []

    def scrypt_spy(password, salt, *a, **k):
        seen.append(salt)
        seen_pw.append(password)
        raise _Stop()
    shims.install(K, os=_FakeOS, scrypt_hash=scrypt_spy)
    for n in range(2):
        before = len(_FakeOS.calls)
        try:
            K.bip38_intermediate_password(pp)
        except _Stop:
            pass
        ex.check(len(seen_pw) == n + 1 and (seen_pw[n].encode('utf-8') if isinstance(seen_pw[n], str) else bytes(seen_pw[n])) == nfc.encode('utf-8'),
                 'passphrase-enters-scrypt-nfc-normalised-call-%d' % (n + 1))
        drawn = _FakeOS.calls[before:]
        ex.check(len(drawn) == 1 and len(seen) == n + 1 and _same_terms(seen[n], drawn[0]), 'owner-salt-drawn-during-call-%d' % (n + 1))
    ex.check(len(seen) == 2 and not _same_terms(seen[0], seen[1]), 'two-calls-use-different-salts')


def h_ec_decrypt_nfc(ex):
    """EC-multiplied mode: bip38_decrypt derives the pass factor from the NFC form of the passphrase - the form
    bip38_intermediate_password used when the key was made - so the same passphrase opens the key"""
    K, E = _mods()
    import unicodedata
    pw = ex.choose('passphrase', PASSPHRASES)
    nfc = unicodedata.normalize('NFC', pw)
    if ex.concrete:
        ip = K.bip38_intermediate_password(pw, owner_salt=bytes(range(0x80, 0x88)))
        r = K.bip38_create_new_encrypted_wif(ip, seed=bytes(range(0x90, 0x90 + 24)))
        try:
            ok = K.Key(r['encrypted_wif'], password=pw).address() == r['address']
        except K.BKeyError:
            ok = False
        ex.check(ok, 'bip38-ec-decrypt-passphrase-nfc-normalised')
        return
    seen = []

    def scrypt_spy(password, salt, *a, **k):
        seen.append(password.encode('utf-8') if isinstance(password, str) else bytes(password))
        raise _Stop()
    shims.install(K, scrypt_hash=scrypt_spy)
    d = b'\x01\x43' + ex.bytes('flag', 1) + ex.bytes('address_hash', 4) + ex.bytes('owner_entropy', 8) + ex.bytes('enc', 24) + ex.bytes('chk', 4)
    try:
        K.bip38_decrypt(c12.B58(d), pw)
    except _Stop:
        pass
    ex.check(seen == [nfc.encode('utf-8')], 'bip38-ec-decrypt-passphrase-nfc-normalised')


def h_fresh_seed(ex):
    """bip38_create_new_encrypted_wif without explicit seed: the seed hashed into the key factor is drawn by
    os.urandom DURING the call"""
    K, E = _mods()
    if ex.concrete:
        ip = K.bip38_intermediate_password('passphrase', owner_salt=bytes(range(0x80, 0x88)))
        a, b = K.bip38_create_new_encrypted_wif(ip), K.bip38_create_new_encrypted_wif(ip)
        ex.check(a['encrypted_wif'] != b['encrypted_wif'], 'two-calls-use-different-seeds')
        return
    _FakeOS.calls = []
    seen = []
    body = b'\x2c\xe9\xb3\xe1\xff\x39\xe2\x53' + bytes(range(8)) + b'\x02' + bytes(range(32))     # magic | owner entropy | pass point
    chk = ex.bytes('chk', 4)

    def dsha_spy(data, as_hex=False):
        if len(data) == 24:
            seen.append(data)
            raise _Stop()
        return chk + b'\0' * 28 if len(data) == 49 else c12._H['d'](data)
    shims.install(K, os=_FakeOS, double_sha256=dsha_spy)
    ip = c12.B58(body + chk)
    for n in range(2):
        before = len(_FakeOS.calls)
        try:
            K.bip38_create_new_encrypted_wif(ip)
        except _Stop:
            pass
        drawn = _FakeOS.calls[before:]
        ex.check(len(drawn) == 1 and len(seen) == n + 1 and _same_terms(seen[n], drawn[0]), 'seed-drawn-during-call-%d' % (n + 1))
    ex.check(len(seen) == 2 and not _same_terms(seen[0], seen[1]), 'two-calls-use-different-seeds')


def jobs(tier):
    return [Job('plain_roundtrip', h_plain_roundtrip, W=272, setup=setup, budget_s=1500),
            Job('address_hash_check_Key', h_address_hash_check, W=72, setup=setup, params=dict(cls='Key')),
            Job('address_hash_check_HDKey', h_address_hash_check, W=72, setup=setup, params=dict(cls='HDKey')),
            Job('import_keeps_decrypted_key_Key', h_import_keeps_decrypted_key, W=272, setup=setup, params=dict(cls='Key')),
            Job('import_keeps_decrypted_key_HDKey', h_import_keeps_decrypted_key, W=272, setup=setup, params=dict(cls='HDKey')),
            Job('ec_decrypt_nfc', h_ec_decrypt_nfc, W=72, setup=setup),
            Job('fresh_salt', h_fresh_salt, W=272, setup=setup),
            Job('fresh_seed', h_fresh_seed, W=272, setup=setup)]
