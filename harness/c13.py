"""C13 - ECDSA signatures: low-S, strict DER, range checks, determinism plumbing, verifier plumbing (Python side).

Real code executed symbolically: keys.Signature.create (after the C signer), Signature.__init__,
Signature.as_der_encoded / bytes, Signature.parse_bytes, Signature.public_key setter, Signature.verify,
encoding.der_encode_sig + fastecdsa's pure-Python DEREncoder.encode_signature.
The C functions fastecdsa _ecdsa.sign / _ecdsa.verify / is_point_on_curve are nondeterministic stubs."""
import z3
from symx import core, shims
from symx.core import SBytes, SInt, s_and, s_or, s_not, s_ite
from vtlib.api import Job, kf

PROPERTY = 'C13'
N = 0xFFFFFFFFFFFFFFFFFFFFFFFFFFFFFFFEBAAEDCE6AF48A03BBFD25E8CD0364141
ASSUMPTIONS = [
    'fastecdsa _ecdsa.sign returns an arbitrary (r, s) in [1, n-1]^2 (stub); _ecdsa.verify returns an arbitrary bool (stub); is_point_on_curve returns an arbitrary bool (stub)',
    'RFC6979 nonce object: stub recording its arguments and returning a token (determinism is checked as data flow: no other state reaches the signer)',
    "job parse_der runs Signature.parse_bytes with convert_der_sig replaced by a reference DER decoder (all length classes); job der_strict runs the real convert_der_sig (re-compiled so that its '%064x' formatting stays symbolic) and fastecdsa's DER decoder",
]
BOUNDS = {'quick': 'strict DER with the REAL decoder: 32-byte r and s followed by 0..2 junk bytes; keys.sign with every hash type 1..255; verify twice on one object with the same or another digest; r, s in [1, n-1] with minimal byte length in {1, 16, 31, 32} and every value inside each class (create, DER, parse); all r, s in [-1, 2^256+1] outside [1,n-1] plus the length classes {1, 31, 32} inside (range checks, compact parse); hash type byte 0..255',
          'thorough': 'same'}
OUTSIDE = 'validity of produced signatures under an independent verifier, exactness of the C verifier, nonce uniqueness (inside fastecdsa C code)'


def _mods():
    import bitcoinlib.keys as K
    import bitcoinlib.encoding as E
    return K, E


def setup(ex):
    K, E = _mods()
    import fastecdsa.encoding.util as FU
    import fastecdsa.encoding.der as FD
    import fastecdsa.encoding.asn1 as FA
    for m in (K, E, FU, FD, FA):
        shims.install(m, int=shims.IntShim, bytes=shims.BytesShim)


def setup_real_der(ex):
    setup(ex)
    K, E = _mods()
    shims.rewrite_function(E, 'convert_der_sig')          # ('%064x%064x' % (r, s) stays symbolic)
    shims.install(K, convert_der_sig=E.convert_der_sig)   # (keys imported the name)


def ref_der_int(v):
    """minimal big-endian two's complement encoding of a positive integer (BIP66): forks on the length"""
    n = 1
    while not (v < (1 << (8 * n))):
        n += 1
    b = v.to_bytes(n, 'big')
    if (b[0] & 0x80) != 0:
        b = b'\x00' + b
    return b'\x02' + bytes([len(b)]) + b


def ref_der(r, s):
    body = ref_der_int(r) + ref_der_int(s)
    return b'\x30' + bytes([len(body)]) + body


LENS = [1, 16, 31, 32]


def sized(ex, name, lens=LENS, lo=1, hi=N - 1):
    """an integer in [lo, hi] whose minimal byte length is one of `lens` (structural bound, stated in BOUNDS)"""
    L = ex.choose(name + '_bytes', lens)
    v = ex.int(name, lo, hi)
    ex.assume(s_and(v >= (1 << (8 * (L - 1))) if L > 1 else v >= lo, v < (1 << (8 * L))))
    return v


def _eq(a, b):
    if len(a) != len(b):
        return False
    return a == b


_KEY = None


def _key():
    global _KEY
    if _KEY is None:
        K, E = _mods()
        with shims.unshimmed():
            _KEY = K.HDKey('d02220828cad5e0e0f25057071f4dae9bf38720913e46a596fd7eb8f83ad045d')
            _KEY.public()
    return _KEY


class _FakeECDSA:
    def __init__(self, ex, r, s):
        self.r, self.s, self.calls = r, s, []

    def sign(self, *a):
        self.calls.append(a)
        return self.r, self.s


def h_low_s(ex):
    """Signature.create: whatever (r, s) the C signer returns, the signature handed out has s <= (n-1)/2, the same r,
    and s' in {s, n - s}"""
    K, E = _mods()
    r = sized(ex, 'r', [1, 32])
    s = sized(ex, 's')
    fake = _FakeECDSA(ex, r, s)
    if ex.concrete:
        old = K._ecdsa
        K._ecdsa = fake
    else:
        shims.install(K, _ecdsa=fake)
    try:
        sig = K.Signature.create('0d12fdc4aac9eaaab9730999e0ce84c3bd5bb38dfd1f4c90c613ee177987429c', _key())
    finally:
        if ex.concrete:
            K._ecdsa = old
    ex.check(sig.s <= (N - 1) // 2, 'create-low-s')
    ex.check(sig.r == r, 'create-r-unchanged')
    ex.check(s_or(sig.s == s, sig.s == N - s), 'create-s-or-complement')
    der = sig.as_der_encoded()
    want = ref_der(sig.r, sig.s) + b'\x01'
    ex.check(_eq(der, want), 'create-der-strict')


def h_der(ex):
    """der_encode_sig / Signature.as_der_encoded / bytes for all r, s and hash types"""
    K, E = _mods()
    r = sized(ex, 'r')
    s = sized(ex, 's')
    ht = ex.int('hash_type', 0, 255)
    sig = K.Signature(r, s, hash_type=ht)
    want = ref_der(r, s)
    ex.check(_eq(E.der_encode_sig(r, s), want), 'der_encode_sig-bip66')
    ex.check(_eq(sig.as_der_encoded(), want + SBytes([ht]) if not ex.concrete else want + bytes([ht])), 'as_der_encoded-with-hashtype')
    ex.check(_eq(sig.as_der_encoded(include_hash_type=False), want), 'as_der_encoded-without-hashtype')
    ex.check(_eq(sig.bytes(), r.to_bytes(32, 'big') + s.to_bytes(32, 'big')), 'compact-r-s')


def h_range(ex):
    """Signature(r, s) refuses r, s outside [1, n-1]"""
    K, E = _mods()
    r = ex.int('r', -1, 2 ** 256 + 1)
    s = ex.int('s', -1, 2 ** 256 + 1)
    # the DER encoding done by the constructor forks on the byte length of r and s: keep in-range values to three
    # length classes (values outside [1, n-1] are unconstrained)
    for v in (r, s):
        ex.assume(s_or(v < 1, v >= N, v < 256, s_and(v >= 1 << 240, v < 1 << 248), v >= 1 << 248))
    ok = s_and(r >= 1, r <= N - 1, s >= 1, s <= N - 1)
    try:
        sig = K.Signature(r, s)
    except K.BKeyError:
        ex.check(s_not(ok), 'init-refuses-only-out-of-range')
        return
    ex.check(ok, 'init-accepts-only-in-range')
    ex.check(s_and(sig.r == r, sig.s == s), 'init-keeps-r-s')


def h_parse_compact(ex):
    """Signature.parse_bytes of a 64-byte compact signature (any first byte, also 0x30): r, s are the two halves"""
    K, E = _mods()
    raw = ex.bytes('sig', 64)
    r = shims.IntShim.from_bytes(raw[:32], 'big')
    s = shims.IntShim.from_bytes(raw[32:], 'big')
    for v in (r, s):
        ex.assume(s_or(v < 1, v >= N, v < 256, s_and(v >= 1 << 240, v < 1 << 248), v >= 1 << 248))
    ok = s_and(r >= 1, r <= N - 1, s >= 1, s <= N - 1)
    try:
        sig = K.Signature.parse_bytes(raw)
    except K.BKeyError:
        ex.check(s_not(ok), 'parse-compact-refuses-only-out-of-range')
        return
    ex.check(ok, 'parse-compact-accepts-only-in-range')
    ex.check(s_and(sig.r == r, sig.s == s), 'parse-compact-r-s')
    ex.check(sig.hash_type == 1, 'parse-compact-default-hashtype')


def _ref_der_decode(der):
    """reference decoder for a DER signature produced by ref_der (used in place of convert_der_sig)"""
    rl = der[3]
    if isinstance(rl, SInt):
        rl = rl.concretize()
    rb = der[4:4 + rl]
    sl = der[5 + rl]
    if isinstance(sl, SInt):
        sl = sl.concretize()
    sb = der[6 + rl:6 + rl + sl]
    r = shims.IntShim.from_bytes(rb, 'big')
    s = shims.IntShim.from_bytes(sb, 'big')
    return r.to_bytes(32, 'big') + s.to_bytes(32, 'big')


def h_parse_der(ex):
    """Signature.parse_bytes(DER || hashtype): r, s, hash type recovered; the DER part is kept for re-serialization"""
    K, E = _mods()
    r = sized(ex, 'r')
    s = sized(ex, 's')
    ht = ex.int('hash_type', 0, 255)
    der = ref_der(r, s)
    blob = der + (SBytes([ht]) if not ex.concrete else bytes([ht]))
    if not ex.concrete:
        shims.install(K, convert_der_sig=lambda sig, as_hex=True: _ref_der_decode(sig))
    try:
        sig = K.Signature.parse_bytes(blob if not ex.concrete else bytes(blob))
    except K.BKeyError:
        ex.check(False, 'parse-der-accepted', known=kf('C13-parse-short-der-rejected', len(blob) <= 64))
        return
    ex.check(s_and(sig.r == r, sig.s == s), 'parse-der-r-s')
    ex.check(sig.hash_type == ht, 'parse-der-hashtype')
    ex.check(_eq(sig.as_der_encoded(), blob), 'parse-der-reserialize-identity')


def h_der_strict(ex):
    """Signature.parse_bytes on a correct DER signature followed by extra bytes inside the blob (before the hash type
    byte): BIP66 strict DER has no trailing data - the blob must be refused.  The REAL convert_der_sig and fastecdsa's
    pure-Python DER decoder are executed (convert_der_sig re-compiled so that its '%064x' formatting stays symbolic)"""
    K, E = _mods()
    r = sized(ex, 'r', lens=(1, 32))
    s = sized(ex, 's', lens=(1, 32))
    extra = ex.choose('trailing_bytes', [0, 1, 2])
    der = ref_der(r, s)
    junk = ex.bytes('junk', extra) if extra else b''
    blob = der + junk + b'\x01'
    if len(blob) <= 64:
        ex.cut('short DER blobs are taken for compact signatures (listed finding C13-parse-short-der-rejected)')
    try:
        sig = K.Signature.parse_bytes(blob if not ex.concrete else bytes(blob))
        accepted = True
    except (K.BKeyError, E.EncodingError, ValueError, Exception) as e:
        if core.exception_origin(e.__traceback__) == 'harness':
            raise
        accepted = False
    if extra:
        ex.check(not accepted, 'der-with-trailing-bytes-refused')
    else:
        ex.check(accepted, 'strict-der-accepted')
        if accepted:
            ex.check(s_and(sig.r == r, sig.s == s), 'parse-der-r-s-real-decoder')


class _FakePub:
    """stand-in for a public Key object (the real one needs C code to build)"""
    is_private = False

    def __init__(self, compressed):
        self.compressed = compressed

    def public_point(self):
        return (55066263022277343669578718895168534326250603453777594175500187360389116729240,
                32670510020758816978083085130507043184471273380659243275938904335757337482424)


class _FakeCurve:
    def __init__(self, oncurve):
        self.oncurve = oncurve

    def is_point_on_curve(self, pt):
        return self.oncurve


class _FakeVerify:
    def __init__(self, result):
        self.result, self.calls = result, []

    def verify(self, *a):
        self.calls.append(a)
        return self.result


def h_verify_plumbing(ex):
    """Signature.public_key setter refuses a point that is not on the curve for BOTH key encodings; Signature.verify
    returns exactly what the C verifier returns for exactly (r, s, digest, x, y)"""
    K, E = _mods()
    oncurve = ex.bool('oncurve')
    compressed = ex.bool('compressed')
    result = ex.bool('c_verifier_result')
    comp = bool(compressed)
    pub = _FakePub(comp)           # the same key object is used for every call (as Input.verify does)
    fv = _FakeVerify(result)
    if ex.concrete:
        old = (K.fastecdsa_secp256k1, K._ecdsa)
        K.fastecdsa_secp256k1, K._ecdsa = _FakeCurve(oncurve), fv
    else:
        shims.install(K, fastecdsa_secp256k1=_FakeCurve(oncurve), _ecdsa=fv)
    try:
        sig = K.Signature(7, 9)
        try:
            out = sig.verify('0d12fdc4aac9eaaab9730999e0ce84c3bd5bb38dfd1f4c90c613ee177987429c', pub)
        except K.BKeyError:
            ex.check(s_not(oncurve), 'verify-refuses-only-off-curve-keys')
            return
    finally:
        if ex.concrete:
            K.fastecdsa_secp256k1, K._ecdsa = old
    ex.check(oncurve, 'verify-never-accepts-off-curve-key')
    ex.check(bool(out) == bool(result), 'verify-returns-c-verifier-result')
    # asking again (same digest, same key) consults the verifier again: no answer is remembered
    result2 = ex.bool('c_verifier_result_second_call')
    fv.result = result2
    digest2 = ex.choose('second_call_digest', ['0d12fdc4aac9eaaab9730999e0ce84c3bd5bb38dfd1f4c90c613ee177987429c',
                                               'ff' * 32, '0d12fdc4aac9eaaab9730999e0ce84c3bd5bb38dfd1f4c90c613ee177987429d'])
    if ex.concrete:
        old2 = (K.fastecdsa_secp256k1, K._ecdsa)
        K.fastecdsa_secp256k1, K._ecdsa = _FakeCurve(oncurve), fv
    try:
        out2 = sig.verify(digest2, pub)
    finally:
        if ex.concrete:
            K.fastecdsa_secp256k1, K._ecdsa = old2
    ex.check(bool(out2) == bool(result2), 'verify-second-call-returns-c-verifier-result')
    ex.check(len(fv.calls) == 2, 'verify-second-call-consults-verifier')
    ex.check(len(fv.calls) == 2 and fv.calls[1][2] == digest2, 'verify-second-call-checks-the-digest-it-was-given')
    a = fv.calls[0]
    px, py = _FakePub(comp).public_point()
    ex.check(a[0] == '7' and a[1] == '9' and a[2] == '0d12fdc4aac9eaaab9730999e0ce84c3bd5bb38dfd1f4c90c613ee177987429c'
             and a[3] == str(px) and a[4] == str(py), 'verify-passes-r-s-digest-point')


class _FakeRFC:
    calls = []

    def __init__(self, msg, x, q, hashfunc, prefix_len=0):
        _FakeRFC.calls.append((msg, x, q))

    def gen_nonce(self):
        return 424242


def h_nonce_flow(ex):
    """the nonce handed to the C signer is the RFC6979 object's output for exactly (digest, secret, n), or the explicit
    k; digest and secret are passed through unchanged"""
    K, E = _mods()
    use_k = ex.bool('explicit_k')
    kval = ex.int('k', 1, N - 1)
    fake = _FakeECDSA(ex, 5, 7)
    _FakeRFC.calls = []
    if ex.concrete:
        old = (K._ecdsa, K.RFC6979)
        K._ecdsa, K.RFC6979 = fake, _FakeRFC
    else:
        shims.install(K, _ecdsa=fake, RFC6979=_FakeRFC, str=shims.StrShim)
    digest = '0d12fdc4aac9eaaab9730999e0ce84c3bd5bb38dfd1f4c90c613ee177987429c'
    try:
        if use_k:
            K.Signature.create(digest, _key(), k=kval)
        else:
            K.Signature.create(digest, _key())
    finally:
        if ex.concrete:
            K._ecdsa, K.RFC6979 = old
    a = fake.calls[0]
    secret = _key().secret
    ex.check(a[0] == digest, 'signer-gets-digest')
    ex.check(a[1] == str(secret), 'signer-gets-secret')
    if use_k:
        got = a[2]
        ex.check((got == str(kval)) if ex.concrete else (getattr(got, 'i', None) is not None and got.i == kval), 'signer-gets-explicit-k')
        ex.check(len(_FakeRFC.calls) == 0, 'no-rfc6979-with-explicit-k')
    else:
        ex.check(a[2] == '424242', 'signer-gets-rfc6979-nonce')
        ex.check(_FakeRFC.calls == [(digest, secret, N)], 'rfc6979-seeded-with-digest-secret-order')


def h_sign_hash_type(ex):
    """keys.sign(digest, key, hash_type=h) for every hash type byte: the signature object and its DER serialization carry
    exactly h (Signature.create is reached with the caller's hash type)"""
    K, E = _mods()
    ht = ex.int('hash_type', 1, 255)
    fake = _FakeECDSA(ex, 5, 7)
    if ex.concrete:
        old = (K._ecdsa, K.RFC6979)
        K._ecdsa, K.RFC6979 = fake, _FakeRFC
        ht = int(ht)
    else:
        shims.install(K, _ecdsa=fake, RFC6979=_FakeRFC, str=shims.StrShim)
    try:
        sig = K.sign('0d12fdc4aac9eaaab9730999e0ce84c3bd5bb38dfd1f4c90c613ee177987429c', _key(), hash_type=ht)
    finally:
        if ex.concrete:
            K._ecdsa, K.RFC6979 = old
    ex.check(sig.hash_type == ht, 'sign-keeps-hash-type')
    der = sig.as_der_encoded()
    ex.check(der[len(der) - 1] == ht, 'sign-der-ends-with-hash-type')


def jobs(tier):
    J = [Job('low_s', h_low_s, W=272, setup=setup, budget_s=1500),
         Job('der', h_der, W=272, setup=setup, budget_s=1500),
         Job('range', h_range, W=272, setup=setup),
         Job('parse_compact', h_parse_compact, W=272, setup=setup),
         Job('parse_der', h_parse_der, W=272, setup=setup, budget_s=1500),
         Job('verify_plumbing', h_verify_plumbing, W=64, setup=setup),
         Job('nonce_flow', h_nonce_flow, W=272, setup=setup),
         Job('sign_hash_type', h_sign_hash_type, W=272, setup=setup),
         Job('der_strict', h_der_strict, W=272, setup=setup_real_der, budget_s=1500)]
    return J
