"""C04 - private key -> public key -> address mapping; invalid keys are refused (the logic around the curve).

Real code executed symbolically: Key.__init__ (private 'bin' / 'hex' formats and public compressed / uncompressed
formats), Key.hash160, Key.address, HDKey.address, keys.Address.__init__ (hashing per script type, prefix per
network, p2sh-segwit redeem script).  secp256k1 point multiplication / decompression are C / big-int code: a dummy
(the public key of a private key is an opaque symbol)."""
import json
import os
from symx import core, shims, stubs
from symx.core import SBytes, SInt, s_and, s_or, s_not
from vtlib.api import Job, kf, REPO
from harness import c12

PROPERTY = 'C04'
N = c12.N
ASSUMPTIONS = [
    'hash160 / sha256 are uninterpreted functional symbols; the text encoders are an inverse-pair stub that records (encoding, prefix, witness version, payload) (C11)',
    'point multiplication (fastecdsa) is not encoded: the public key bytes of a private key object are symbols; the modular square root used by decompression returns an arbitrary value in [1, p-1] (its use - root selection by parity, fixed-width formatting - is the real code)',
]
BOUNDS = {'quick': 'every 32-byte private key value (range refusal); every 33/65-byte public key encoding (field extraction); every network of networks.json x {base58 p2pkh, base58 p2sh-p2wpkh, bech32 p2wpkh, bech32 p2wsh, bech32 p2tr} with symbolic public key bytes, selected through script_type, through witness_type / encoding on Address() and through the HDKey defaults; decompression for every x and every square-root value; two successive address() calls on one key object over 15 x 15 argument combinations (compressed=, script type, explicit prefix) for bitcoin and litecoin',
          'thorough': 'same, call histories for every network'}
OUTSIDE = "that the reported point is the secp256k1 point of the scalar, that mod_sqrt returns a square root, and the on-curve check of imported public keys (C / big-int code)"


def _mods():
    import bitcoinlib.keys as K
    import bitcoinlib.encoding as E
    return K, E


class Opaque:
    def __init__(self, encoding, prefix, witver, payload):
        self.encoding, self.prefix, self.witver, self.payload = encoding, prefix, witver, payload


_H = {}


class _FakeDigest:
    def __init__(self, d):
        self.d = d

    def digest(self):
        return self.d


class _FakeHashlib:
    def sha256(self, x=b''):
        return _FakeDigest(_H['sha'](x))


def setup(ex):
    c12.setup(ex)
    K, E = _mods()
    _H.clear()
    _H.update(h160=stubs.HashStub('h160', 20), sha=stubs.HashStub('sha', 32))
    ex.axiom_sources = ex.axiom_sources + list(_H.values())
    shims.install(K, hash160=_H['h160'], hashlib=_FakeHashlib(),
                  pubkeyhash_to_addr=lambda h, prefix=None, encoding='base58', witver=0: Opaque(encoding, prefix, witver, h))
    shims.rewrite_function(K.Key, 'public_uncompressed_hex')       # ('%x' % y style formatting stays symbolic)


def _eq(a, b):
    if len(a) != len(b):
        return False
    return a == b


def _concrete(ex):
    """replay mode: real hashes; the address text is decoded by the reference decoders into the same record"""
    import hashlib
    _H.update(h160=lambda b: hashlib.new('ripemd160', hashlib.sha256(bytes(b)).digest()).digest(),
              sha=lambda b: hashlib.sha256(bytes(b)).digest())


def _opaque(a):
    if isinstance(a, Opaque) or not isinstance(a, str):
        return a
    from ref import bech32 as RB
    d = RB.decode_segwit(a)
    if d is not None:
        return Opaque('bech32', ''.join(chr(c) for c in d[0]), d[1], bytes(d[2]))
    raw = c12._b58dec(a)
    import hashlib
    if len(raw) < 25 or hashlib.sha256(hashlib.sha256(raw[:-4]).digest()).digest()[:4] != raw[-4:]:
        return None
    return Opaque('base58', raw[:-24], 0, raw[-24:-4])


def h_private_range(ex, fmt):
    """Key(32 bytes / 64 hex digits): accepted only for scalars in [1, n-1]; the key object carries exactly that scalar"""
    K, E = _mods()
    raw = ex.bytes('secret', 32)
    sv = shims.IntShim.from_bytes(raw, 'big')
    arg = raw if fmt == 'bin' else (raw.hex() if not ex.concrete else bytes(raw).hex())
    try:
        k = K.Key(arg)
        accepted = True
    except K.BKeyError:
        accepted = False
    inrange = s_and(sv >= 1, sv <= N - 1)
    if not accepted:
        ex.check(s_not(inrange), 'key-refuses-only-out-of-range-secret')
        return
    ex.check(inrange, 'key-refuses-out-of-range-secret', known=kf('C04-private-key-range-not-checked', s_not(inrange)))
    ex.check(k.secret == sv, 'key-keeps-the-scalar')
    ex.check(_eq(k.private_byte, raw), 'key-private-bytes-keep-leading-zeros')
    ex.check(k.is_private is True and k.compressed is True, 'key-flags')


def h_public_fields(ex, form, text=None):
    """Key(public key bytes): compressed 02|03 + x, uncompressed 04 + x + y - the x / y fields, the compressed form of an
    uncompressed key (prefix = parity of y) and the compression flag are extracted exactly, leading zeros kept"""
    K, E = _mods()
    x = ex.bytes('x', 32)
    if form == 'compressed':
        pre = ex.bytes('prefix', 1)
        ex.assume(s_or(pre[0] == 2, pre[0] == 3))
        data = pre + x
    else:
        y = ex.bytes('y', 32)
        data = b'\x04' + x + y
    if text is None:
        arg = data if not ex.concrete else bytes(data)
    else:
        # the same key handed over as a hex string (lower or upper case)
        arg = data.hex() if not ex.concrete else bytes(data).hex()
        if text == 'HEX':
            arg = arg.upper()
    k = K.Key(arg)
    ex.check(k.is_private is False, 'public-key-classified-public')
    ex.check(k.compressed == (form == 'compressed'), 'compression-flag')
    xh = x.hex() if not ex.concrete else bytes(x).hex()
    ex.check(core.SStr.lift(k.x_hex) == xh if not ex.concrete else k.x_hex == xh, 'x-field')
    if form == 'compressed':
        ex.check(_eq(k.public_byte, data) and _eq(k.public_compressed_byte, data), 'compressed-bytes-kept')
    else:
        odd = (y[31] & 1) == 1
        want = (b'\x03' if bool(odd) else b'\x02') + x
        ex.check(_eq(k.public_compressed_byte, want), 'compressed-form-of-uncompressed-key')
        ex.check(_eq(k.public_byte, data), 'uncompressed-bytes-kept')


CONFIGS = {
    # name: (HDKey witness_type / script_type / encoding arguments) -> expected (encoding, which prefix, payload rule)
    'p2pkh': dict(encoding='base58', script_type='p2pkh'),
    'p2sh_p2wpkh': dict(encoding='base58', script_type='p2sh_p2wpkh'),
    'p2wpkh': dict(encoding='bech32', script_type='p2wpkh'),
    'p2wsh': dict(encoding='bech32', script_type='p2wsh'),
    'p2tr': dict(encoding='bech32', script_type='p2tr'),
}


def h_address(ex, net):
    """Key.address(): the payload handed to the text encoder is exactly the standard hash of the public key for the
    script type, with the version byte / hrp documented for the network"""
    K, E = _mods()
    if ex.concrete:
        _concrete(ex)
    nets = c12.networks()
    d = nets[net]
    cfg = ex.choose('type', list(CONFIGS))
    comp = ex.choose('compressed', [True, False]) if cfg == 'p2pkh' else True
    pub = b'\x02' + ex.bytes('pub_x', 32)
    pubu = b'\x04' + ex.bytes('pub_x2', 32) + ex.bytes('pub_y', 32)
    k = K.Key.__new__(K.Key)
    k.network = K.Network(net)
    k.public_byte = pub if comp else pubu
    k.public_compressed_byte = pub
    k._public_uncompressed_byte = pubu
    k._public_uncompressed_hex = 'set'
    k.compressed, k._address_obj, k._hash160, k.is_private = comp, None, None, False
    a = k.address(encoding=CONFIGS[cfg]['encoding'], script_type=CONFIGS[cfg]['script_type'])
    _check_addr(ex, a, _want(d, cfg, pub if comp else pubu))


P = 0xFFFFFFFFFFFFFFFFFFFFFFFFFFFFFFFFFFFFFFFFFFFFFFFFFFFFFFFEFFFFFC2F


def h_decompress(ex):
    """Key.public_uncompressed_hex / _byte of a key imported in compressed form: 04 | x | y with y the square root whose
    parity matches the 02/03 prefix, both coordinates at their fixed width of 32 bytes (for every value the modular
    square root may return)"""
    K, E = _mods()
    x = ex.bytes('x', 32)
    par = ex.choose('prefix', [2, 3])
    root = ex.int('mod_sqrt_result', 1, P - 1)
    k = K.Key.__new__(K.Key)
    k._public_uncompressed_hex = k._public_uncompressed_byte = None
    xh = x.hex() if not ex.concrete else bytes(x).hex()
    k.public_hex = ('02' if par == 2 else '03') + xh
    k._x, k.x_hex = shims.IntShim.from_bytes(x, 'big'), xh
    if ex.concrete:
        # replay: the real mod_sqrt is replaced by the recorded result (the obligation is universal over results)
        import bitcoinlib.keys as KK
        orig = KK.mod_sqrt
        KK.mod_sqrt = lambda a: int(root)
        try:
            h, b = k.public_uncompressed_hex, k.public_uncompressed_byte
        finally:
            KK.mod_sqrt = orig
    else:
        shims.install(K, mod_sqrt=lambda a: root, pow=lambda a, b, c=None: 0, hex=shims.hex_shim)
        shims.install(E, hex=shims.hex_shim)
        h, b = k.public_uncompressed_hex, k.public_uncompressed_byte
    odd = (root & 1) == 1
    y = root if bool(odd == (par == 3)) else P - root
    want = b'\x04' + x + y.to_bytes(32, 'big')
    ex.check(_eq(b, want), 'uncompressed-bytes-are-04-x-y-fixed-width')
    wh = want.hex() if not ex.concrete else bytes(want).hex()
    ex.check((core.SStr.lift(h) == wh) if not ex.concrete else h == wh, 'uncompressed-hex-is-04-x-y-fixed-width')


ROUTES = {
    # constructor arguments -> (encoding, prefix field, payload rule, witness version)
    'Address(witness_type=p2sh-segwit)': (dict(witness_type='p2sh-segwit'), 'p2sh_p2wpkh'),
    'Address(witness_type=p2sh-segwit, encoding=base58)': (dict(witness_type='p2sh-segwit', encoding='base58'), 'p2sh_p2wpkh'),
    'Address(script_type=p2sh_p2wpkh)': (dict(script_type='p2sh_p2wpkh'), 'p2sh_p2wpkh'),
    'Address(witness_type=legacy)': (dict(witness_type='legacy'), 'p2pkh'),
    'Address(encoding=base58)': (dict(encoding='base58'), 'p2pkh'),
    'Address(witness_type=segwit)': (dict(witness_type='segwit'), 'p2wpkh'),
    'Address(encoding=bech32)': (dict(encoding='bech32'), 'p2wpkh'),
    'Address(script_type=p2wsh)': (dict(script_type='p2wsh'), 'p2wsh'),
    'Address(script_type=p2tr)': (dict(script_type='p2tr'), 'p2tr'),
    'HDKey(witness_type=legacy).address()': ('hd', 'legacy', 'p2pkh'),
    'HDKey(witness_type=p2sh-segwit).address()': ('hd', 'p2sh-segwit', 'p2sh_p2wpkh'),
    'HDKey(witness_type=segwit).address()': ('hd', 'segwit', 'p2wpkh'),
}


def _want(d, cfg, data):
    h160 = _H['h160']
    if cfg == 'p2pkh':
        return ('base58', bytes.fromhex(d['prefix_address']), h160(data), 0)
    if cfg == 'p2sh_p2wpkh':
        return ('base58', bytes.fromhex(d['prefix_address_p2sh']), h160(b'\x00\x14' + h160(data)), 0)
    if cfg == 'p2wpkh':
        return ('bech32', d['prefix_bech32'], h160(data), 0)
    return ('bech32', d['prefix_bech32'], _H['sha'](data), 1 if cfg == 'p2tr' else 0)


def _check_addr(ex, a, want, tag=''):
    a = _opaque(a)
    if not isinstance(a, Opaque):
        ex.check(False, 'address-built' + tag)
        return
    ex.check(a.encoding == want[0] and a.prefix == want[1], 'address-encoding-and-network-prefix' + tag)
    ex.check(_eq(a.payload, want[2]), 'address-payload-is-standard-hash-of-key' + tag)
    ex.check(a.witver == want[3], 'address-witness-version' + tag)


def h_address_routes(ex, net):
    """the other documented ways to select the address type - Address(witness_type= / script_type= / encoding=) and the
    defaults an HDKey derives from its witness type - give the same standard encodings"""
    K, E = _mods()
    if ex.concrete:
        _concrete(ex)
    d = c12.networks()[net]
    route = ex.choose('route', list(ROUTES))
    pub = b'\x02' + ex.bytes('pub_x', 32)
    spec = ROUTES[route]
    if spec[0] == 'hd':
        k = K.HDKey.__new__(K.HDKey)
        k.network = K.Network(net)
        k.public_byte = k.public_compressed_byte = pub
        k.compressed, k._address_obj, k._hash160, k.is_private = True, None, None, False
        k.witness_type, k.multisig = spec[1], False
        k.script_type = K.script_type_default(spec[1], False)
        k.encoding = K.get_encoding_from_witness(spec[1])
        a = k.address()
        cfg = spec[2]
    else:
        a = K.Address(pub, network=net, **spec[0]).address
        cfg = spec[1]
    _check_addr(ex, a, _want(d, cfg, pub))


OPS = [(c, cfg, pf) for c in (None, True, False) for cfg in ('p2pkh', 'p2sh_p2wpkh', 'p2wpkh') for pf in (False, True)
       if not (c is False and cfg != 'p2pkh')]


def h_address_history(ex, net):
    """two successive address requests on ONE key object (any compressed= argument, script type, with or without an
    explicit version prefix): the second answer is the standard address for ITS arguments, not a remembered one"""
    K, E = _mods()
    if ex.concrete:
        _concrete(ex)
    d = c12.networks()[net]
    comp0 = ex.choose('key_compressed', [True, False])
    # the key object is built by the real constructor from a public key in compressed / uncompressed form; its two
    # serializations (obligations of the public_fields / decompress jobs) are read back from it
    if comp0:
        root = ex.int('mod_sqrt_result', 1, P - 1)
        if not ex.concrete:
            shims.install(K, mod_sqrt=lambda a: root, pow=lambda a, b, c=None: 0, hex=shims.hex_shim)
            shims.install(E, hex=shims.hex_shim)
        data = b'\x02' + ex.bytes('pub_x', 32)
    else:
        data = b'\x04' + ex.bytes('pub_x2', 32) + ex.bytes('pub_y', 32)
    k = K.Key(data if not ex.concrete else bytes(data), network=net)
    pub, pubu = k.public_compressed_byte, k.public_uncompressed_byte
    flag = comp0
    for n in (1, 2):
        c, cfg, pf = ex.choose('call%d' % n, OPS)
        if cfg != 'p2pkh' and not (c or (c is None and flag)):
            ex.cut('segwit address of an uncompressed key is refused')
        want = list(_want(d, cfg, pub if (c or (c is None and flag)) else pubu))
        kw = dict(script_type=cfg, encoding=want[0])
        if pf:
            kw['prefix'] = want[1] = (b'\x6f' if want[0] == 'base58' else 'tb')
        a = k.address(compressed=c, **kw)
        flag = bool(c or (c is None and flag))       # the library remembers the last requested form in key.compressed
        _check_addr(ex, a, want, '-call%d' % n)


def jobs(tier):
    J = [Job('private_range_bin', h_private_range, W=272, setup=setup, params=dict(fmt='bin'), budget_s=1500),
         Job('private_range_hex', h_private_range, W=272, setup=setup, params=dict(fmt='hex'), budget_s=1500),
         Job('public_fields_compressed', h_public_fields, W=272, setup=setup, params=dict(form='compressed')),
         Job('public_fields_uncompressed', h_public_fields, W=272, setup=setup, params=dict(form='uncompressed'))]
    for form in ('compressed', 'uncompressed'):
        for text in ('hex',):          # (upper-case hex: minutes per job and a case-insensitive oracle needed - not registered)
            J.append(Job('public_fields_%s_%s' % (form, text), h_public_fields, W=272, setup=setup, params=dict(form=form, text=text), budget_s=600))
    J.append(Job('decompress', h_decompress, W=272, setup=setup, budget_s=300))
    for net in c12.networks():
        J.append(Job('address_%s' % net, h_address, W=72, setup=setup, params=dict(net=net), budget_s=1500))
        J.append(Job('address_routes_%s' % net, h_address_routes, W=72, setup=setup, params=dict(net=net), budget_s=1500))
    for net in ('bitcoin', 'litecoin') if tier == 'quick' else c12.networks():
        J.append(Job('address_history_%s' % net, h_address_history, W=272, setup=setup, params=dict(net=net), budget_s=1500))
    return J
