"""C04 - private key -> public key -> address mapping; invalid keys are refused (the logic around the curve).

Real code executed symbolically: Key.__init__ (private 'bin' / 'hex' formats and public compressed / uncompressed
formats), Key.hash160, Key.address, HDKey.address, keys.Address.__init__ (hashing per script type, prefix per
network, p2sh-segwit redeem script).  secp256k1 point multiplication / decompression are C / big-int code: a dummy
(the public key of a private key is an opaque symbol)."""
import json
import os
from symx import core, shims, stubs
from symx.core import SBytes, SInt, s_and, s_or, s_not
from vtlib.api import Job, kf, REPO
from harness import c12

PROPERTY = 'C04'
N = c12.N
ASSUMPTIONS = [
    'hash160 / sha256 are uninterpreted functional symbols; the text encoders are an inverse-pair stub that records (encoding, prefix, witness version, payload) (C11)',
    'point multiplication (fastecdsa) and point decompression (modular square root) are not encoded: the public key bytes of a key object are symbols',
]
BOUNDS = {'quick': 'every 32-byte private key value (range refusal); every 33/65-byte public key encoding (field extraction); every network of networks.json x {base58 p2pkh, base58 p2sh-p2wpkh, bech32 p2wpkh, bech32 p2wsh, bech32 p2tr} with symbolic public key bytes',
          'thorough': 'same'}
OUTSIDE = "that the reported point is the secp256k1 point of the scalar, and the on-curve check of imported public keys (C / big-int code)"


def _mods():
    import bitcoinlib.keys as K
    import bitcoinlib.encoding as E
    return K, E


class Opaque:
    def __init__(self, encoding, prefix, witver, payload):
        self.encoding, self.prefix, self.witver, self.payload = encoding, prefix, witver, payload


_H = {}


class _FakeDigest:
    def __init__(self, d):
        self.d = d

    def digest(self):
        return self.d


class _FakeHashlib:
    def sha256(self, x=b''):
        return _FakeDigest(_H['sha'](x))


def setup(ex):
    c12.setup(ex)
    K, E = _mods()
    _H.clear()
    _H.update(h160=stubs.HashStub('h160', 20), sha=stubs.HashStub('sha', 32))
    ex.axiom_sources = ex.axiom_sources + list(_H.values())
    shims.install(K, hash160=_H['h160'], hashlib=_FakeHashlib(),
                  pubkeyhash_to_addr=lambda h, prefix=None, encoding='base58', witver=0: Opaque(encoding, prefix, witver, h))


def _eq(a, b):
    if len(a) != len(b):
        return False
    return a == b


def h_private_range(ex, fmt):
    """Key(32 bytes / 64 hex digits): accepted only for scalars in [1, n-1]; the key object carries exactly that scalar"""
    K, E = _mods()
    raw = ex.bytes('secret', 32)
    sv = shims.IntShim.from_bytes(raw, 'big')
    arg = raw if fmt == 'bin' else (raw.hex() if not ex.concrete else bytes(raw).hex())
    try:
        k = K.Key(arg)
        accepted = True
    except K.BKeyError:
        accepted = False
    inrange = s_and(sv >= 1, sv <= N - 1)
    if not accepted:
        ex.check(s_not(inrange), 'key-refuses-only-out-of-range-secret')
        return
    ex.check(inrange, 'key-refuses-out-of-range-secret', known=kf('C04-private-key-range-not-checked', s_not(inrange)))
    ex.check(k.secret == sv, 'key-keeps-the-scalar')
    ex.check(_eq(k.private_byte, raw), 'key-private-bytes-keep-leading-zeros')
    ex.check(k.is_private is True and k.compressed is True, 'key-flags')


def h_public_fields(ex, form):
    """Key(public key bytes): compressed 02|03 + x, uncompressed 04 + x + y - the x / y fields, the compressed form of an
    uncompressed key (prefix = parity of y) and the compression flag are extracted exactly, leading zeros kept"""
    K, E = _mods()
    x = ex.bytes('x', 32)
    if form == 'compressed':
        pre = ex.bytes('prefix', 1)
        ex.assume(s_or(pre[0] == 2, pre[0] == 3))
        data = pre + x
    else:
        y = ex.bytes('y', 32)
        data = b'\x04' + x + y
    k = K.Key(data if not ex.concrete else bytes(data))
    ex.check(k.is_private is False, 'public-key-classified-public')
    ex.check(k.compressed == (form == 'compressed'), 'compression-flag')
    xh = x.hex() if not ex.concrete else bytes(x).hex()
    ex.check(core.SStr.lift(k.x_hex) == xh if not ex.concrete else k.x_hex == xh, 'x-field')
    if form == 'compressed':
        ex.check(_eq(k.public_byte, data) and _eq(k.public_compressed_byte, data), 'compressed-bytes-kept')
    else:
        odd = (y[31] & 1) == 1
        want = (b'\x03' if bool(odd) else b'\x02') + x
        ex.check(_eq(k.public_compressed_byte, want), 'compressed-form-of-uncompressed-key')
        ex.check(_eq(k.public_byte, data), 'uncompressed-bytes-kept')


CONFIGS = {
    # name: (HDKey witness_type / script_type / encoding arguments) -> expected (encoding, which prefix, payload rule)
    'p2pkh': dict(encoding='base58', script_type='p2pkh'),
    'p2sh_p2wpkh': dict(encoding='base58', script_type='p2sh_p2wpkh'),
    'p2wpkh': dict(encoding='bech32', script_type='p2wpkh'),
    'p2wsh': dict(encoding='bech32', script_type='p2wsh'),
    'p2tr': dict(encoding='bech32', script_type='p2tr'),
}


def h_address(ex, net):
    """Key.address(): the payload handed to the text encoder is exactly the standard hash of the public key for the
    script type, with the version byte / hrp documented for the network"""
    K, E = _mods()
    nets = c12.networks()
    d = nets[net]
    cfg = ex.choose('type', list(CONFIGS))
    comp = ex.choose('compressed', [True, False]) if cfg == 'p2pkh' else True
    pub = b'\x02' + ex.bytes('pub_x', 32)
    pubu = b'\x04' + ex.bytes('pub_x2', 32) + ex.bytes('pub_y', 32)
    k = K.Key.__new__(K.Key)
    k.network = K.Network(net)
    k.public_byte = pub if comp else pubu
    k.public_compressed_byte = pub
    k._public_uncompressed_byte = pubu
    k._public_uncompressed_hex = 'set'
    k.compressed, k._address_obj, k._hash160, k.is_private = comp, None, None, False
    a = k.address(encoding=CONFIGS[cfg]['encoding'], script_type=CONFIGS[cfg]['script_type'])
    if not isinstance(a, Opaque):
        ex.check(False, 'address-built')
        return
    data = pub if comp else pubu
    h160 = _H['h160']
    if cfg == 'p2pkh':
        want = ('base58', bytes.fromhex(d['prefix_address']), h160(data))
    elif cfg == 'p2sh_p2wpkh':
        want = ('base58', bytes.fromhex(d['prefix_address_p2sh']), h160(b'\x00\x14' + h160(data)))
    elif cfg == 'p2wpkh':
        want = ('bech32', d['prefix_bech32'], h160(data))
    else:
        want = ('bech32', d['prefix_bech32'], _H['sha'](data))
    ex.check(a.encoding == want[0] and a.prefix == want[1], 'address-encoding-and-network-prefix')
    ex.check(_eq(a.payload, want[2]), 'address-payload-is-standard-hash-of-key')
    ex.check(a.witver == (1 if cfg == 'p2tr' else 0), 'address-witness-version')


def jobs(tier):
    J = [Job('private_range_bin', h_private_range, W=272, setup=setup, params=dict(fmt='bin'), budget_s=1500),
         Job('private_range_hex', h_private_range, W=272, setup=setup, params=dict(fmt='hex'), budget_s=1500),
         Job('public_fields_compressed', h_public_fields, W=272, setup=setup, params=dict(form='compressed')),
         Job('public_fields_uncompressed', h_public_fields, W=272, setup=setup, params=dict(form='uncompressed'))]
    for net in c12.networks():
        J.append(Job('address_%s' % net, h_address, W=72, setup=setup, params=dict(net=net), budget_s=1500))
    return J
