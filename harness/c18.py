"""C18 - wire primitives (CompactSize, script numbers, pushes) are canonical and round-trip.

Real code executed symbolically: encoding.int_to_varbyteint, varbyteint_to_int, read_varbyteint,
read_varbyteint_return, varstr, scripts.data_pack, encode_num, decode_num, Script.serialize,
Script.parse_bytesio (+ parse_bytes)."""
import z3
from symx import core, shims
from symx.core import SBytes, SInt, s_and, s_or, s_not, s_ite
from vtlib.api import Job, kf
from ref import wire

PROPERTY = 'C18'
ASSUMPTIONS = [
    'z3 bit-vector semantics; SInt interval analysis proves no proxy integer leaves its width (else EngineLimit)',
    'module-global shims int/bytes/BytesIO delegate to the builtins on concrete values (witness replay on every path)',
    'blobs longer than 80 bytes have symbolic first/last two bytes and concrete filler (content is never inspected by length-prefix code)',
]
BOUNDS = {
    'quick': 'CompactSize: every n in [0,2^64); decoders: every 9-byte buffer; script numbers: every |n| < 2^63 (encode) and every byte string of <= 8 bytes (decode); push header: lengths {0,1,2,20,32,33,64,65,71,75,76,77,255,256,520,65535,65536}; scripts: fully symbolic raw scripts of <= 2 bytes, command sequences of <= 2 items',
    'thorough': 'as quick, plus command sequences of 3 items and more data lengths for <= 2 items',
}
OUTSIDE = 'scripts longer than the stated item count; fully symbolic raw scripts of 3 or more bytes (>30 000 paths, no verdict in 50 min; one non-minimal-push shape behind the opcode 4e, which the library treats as a plain opcode, was seen there and is outside the harness exclusion rule); OP_PUSHDATA4; numbers beyond 8 bytes'


def _mods():
    import bitcoinlib.encoding as E
    import bitcoinlib.scripts as S
    return E, S


def setup(ex):
    E, S = _mods()
    shims.install(E, int=shims.IntShim, bytes=shims.BytesShim)
    shims.install(S, int=shims.IntShim, bytes=shims.BytesShim, BytesIO=shims.SBytesIO)


def _io(ex, data):
    if ex.concrete:
        import io
        return io.BytesIO(bytes(data))
    return shims.SBytesIO(data)


def sym_blob(ex, name, n):
    """n bytes: fully symbolic up to 80 bytes, else symbolic ends + concrete filler"""
    if n <= 80:
        return ex.bytes(name, n)
    head = ex.bytes(name + '_head', 2)
    tail = ex.bytes(name + '_tail', 2)
    return head + bytes((i * 7 + 3) & 0xff for i in range(n - 4)) + tail


def _eq(a, b):
    """byte-string equality incl. length, on bytes / SBytes"""
    if len(a) != len(b):
        return False
    return a == b


# ------------------------------------------------------------------------------------------ CompactSize

def h_compact_encode(ex):
    E, S = _mods()
    n = ex.int('n', 0, 2 ** 64 - 1)
    enc = E.int_to_varbyteint(n)
    ref = wire.compact_size(n)
    ex.check(_eq(enc, ref), 'compactsize-canonical')
    v, size = E.varbyteint_to_int(enc + b'\x99\x98')       # trailing bytes must be ignored
    ex.check(s_and(v == n, size == len(ref)), 'compactsize-roundtrip')
    s = _io(ex, enc + b'\x55')
    ex.check(E.read_varbyteint(s) == n, 'read_varbyteint-roundtrip')
    ex.check(s.tell() == len(ref), 'read_varbyteint-position')
    ex.validate(enc, lambda i: E.int_to_varbyteint(i['n']), 'int_to_varbyteint')


def h_compact_decode(ex):
    """decoders on an arbitrary buffer agree with the definition and with each other"""
    E, S = _mods()
    ln = ex.choose('buflen', [9, 12])
    buf = ex.bytes('buf', ln)
    val, used = wire.compact_size_decode(buf)
    v1, size1 = E.varbyteint_to_int(buf[:9])
    ex.check(s_and(v1 == val, size1 == used), 'varbyteint_to_int-definition')
    s = _io(ex, buf)
    v2 = E.read_varbyteint(s)
    ex.check(s_and(v2 == val, s.tell() == used), 'read_varbyteint-definition')
    s = _io(ex, buf)
    v3, raw = E.read_varbyteint_return(s)
    ex.check(s_and(v3 == val, s.tell() == used), 'read_varbyteint_return-definition')
    ex.check(_eq(raw, buf[:used]), 'read_varbyteint_return-bytes')
    ex.validate((v1, size1), lambda i: E.varbyteint_to_int(i['buf'][:9]), 'varbyteint_to_int')


def h_compact_short(ex):
    """decoders on buffers shorter than the announced size must not invent data: a truncated CompactSize"""
    E, S = _mods()
    ln = ex.choose('buflen', [1, 2, 3, 5])
    buf = ex.bytes('buf', ln)
    first = buf[0]
    need = s_ite(first < 253, 1, s_ite(first == 253, 3, s_ite(first == 254, 5, 9)))
    v1, size1 = E.varbyteint_to_int(buf)
    if need <= ln:
        val, used = wire.compact_size_decode(buf + b'\0' * 9)
        ex.check(s_and(v1 == val, size1 == used), 'short-buffer-complete')
    else:
        ex.reach('short-buffer-truncated')     # library returns a value from the available bytes; not part of the claim


def h_varstr(ex, lengths):
    E, S = _mods()
    ln = ex.choose('len', lengths)
    data = sym_blob(ex, 'data', ln)
    out = E.varstr(data)
    ref = wire.compact_size(ln) + data
    single_zero = (ln == 1) and (data[0] == 0)
    ex.check(_eq(out, ref), 'varstr-definition', known=kf('C18-varstr-single-zero-byte', single_zero))
    if ln <= 80:
        ex.validate(out, lambda i: E.varstr(i['data']), 'varstr')


# ------------------------------------------------------------------------------------------ script numbers

def h_scriptnum_encode(ex):
    E, S = _mods()
    n = ex.int('n', -(2 ** 63) + 1, 2 ** 63 - 1)
    e = S.encode_num(n)
    ex.check(wire.scriptnum_value(e) == n, 'encode_num-value')
    ex.check(wire.scriptnum_is_minimal(e), 'encode_num-minimal')
    d = S.decode_num(e)
    ex.check(d == n, 'decode-encode-identity')
    ex.validate(e, lambda i: S.encode_num(i['n']), 'encode_num')


def h_scriptnum_decode(ex):
    E, S = _mods()
    ln = ex.choose('len', [0, 1, 2, 3, 4, 5, 8])
    b = ex.bytes('b', ln)
    d = S.decode_num(b)
    ex.check(d == wire.scriptnum_value(b), 'decode_num-definition')
    ex.validate(d, lambda i: S.decode_num(i['b']), 'decode_num')


# ------------------------------------------------------------------------------------------ pushes

PUSH_LENGTHS = [0, 1, 2, 20, 32, 33, 64, 65, 71, 75, 76, 77, 255, 256, 520, 65535]


def h_data_pack(ex):
    E, S = _mods()
    ln = ex.choose('len', PUSH_LENGTHS + [65536])
    data = sym_blob(ex, 'data', ln)
    if ln > 65535:
        try:
            out = S.data_pack(data)
        except OverflowError:
            ex.check(True, 'data_pack-refuses-over-65535')
            return
        ex.check(False, 'data_pack-refuses-over-65535')
        return
    out = S.data_pack(data)
    ex.check(_eq(out, wire.push_header(ln) + data), 'data_pack-minimal-push')
    if ln <= 80:
        ex.validate(out, lambda i: S.data_pack(i['data']), 'data_pack')


# ------------------------------------------------------------------------------------------ scripts

def h_script_raw_roundtrip(ex, lengths):
    """fully symbolic raw script -> parse_bytes -> serialize must reproduce the bytes"""
    E, S = _mods()
    n = ex.choose('n', lengths)
    raw = ex.bytes('raw', n)
    try:
        s = S.Script.parse_bytes(raw)
    except S.ScriptError:
        ex.reach('refused')
        return
    out = s.serialize()
    # non-minimal pushes (PUSHDATA1/2 for short data, incl. zero length) cannot be reproduced by a canonical
    # serializer; they are outside "a script built from opcodes and data items"
    nonminimal = False
    if n >= 2:
        nonminimal = s_or(s_and(raw[0] == 0x4c, raw[1] <= 75), raw[0] == 0x4d)
        if n >= 3:
            nonminimal = s_or(nonminimal, s_and(raw[0] >= 1, raw[0] <= 75, False))
    if nonminimal is not False and bool(nonminimal):
        ex.reach('non-minimal-push-input')
        return
    if n == 3:
        # second-position non-minimal pushes
        nm2 = s_and(s_or(raw[0] == 0, raw[0] >= 0x4e), s_or(s_and(raw[1] == 0x4c, raw[2] <= 75), raw[1] == 0x4d))     # (4e: taken as a plain opcode by the library)
        if bool(nm2):
            ex.reach('non-minimal-push-input')
            return
    ex.check(_eq(out, raw), 'parse-serialize-identity')
    ex.validate(out, lambda i: S.Script.parse_bytes(i['raw']).serialize(), 'parse_bytes/serialize')


PLAIN_LENGTHS = [0, 1, 2, 4, 20, 32, 64]            # get_data_type: 'data-N' -> kept as data, content fully symbolic
OPAQUE_LENGTHS_Q = [5, 33, 75, 76, 255, 256, 520]
OPAQUE_LENGTHS_T = [3, 5, 19, 21, 33, 63, 65, 71, 75, 76, 77, 255, 256, 257, 520, 65535]


def _ref_serialize(cmds):
    out = b''
    for c in cmds:
        if isinstance(c, (int, SInt)):
            out = out + (bytes([c]) if isinstance(c, int) else SBytes([c]))
        else:
            out = out + wire.push_header(len(c)) + c
    return out


def opaque_blob(ex, name, n):
    """data of a length that parse_bytesio tries to parse as a nested script: the content starts with a PUSHDATA2
    announcing 65535 bytes, so the nested parse is refused and the item stays data; the tail is symbolic"""
    assert n >= 3
    if n - 3 <= 40:
        return b'\x4d\xff\xff' + ex.bytes(name, n - 3)
    return b'\x4d\xff\xff' + ex.bytes(name + '_head', 2) + bytes((i * 7 + 3) & 0xff for i in range(n - 7)) + ex.bytes(name + '_tail', 2)


def _heuristic_hit(raw):
    """parse_bytesio's whole-script size heuristics (listed finding C18-parse-size-heuristics)"""
    total = len(raw)
    if total == 64:
        return True
    if total == 0:
        return False
    f = raw[0]
    if total == 33:
        return s_or(f == 2, f == 3)
    if total == 65:
        return f == 4
    if 69 <= total <= 74:
        return f == 0x30
    return False


def _same_items(pc, cmds):
    same = len(pc) == len(cmds)
    if not same:
        return False
    for a, b in zip(pc, cmds):
        if isinstance(a, list):
            return False
        ai = isinstance(a, (int, SInt))
        bi = isinstance(b, (int, SInt))
        if ai != bi:
            # an empty data item is serialized as OP_0 and parsed back as the integer command 0
            if ai and not bi and len(b) == 0:
                same = s_and(same, a == 0)
                continue
            return False
        same = s_and(same, (a == b) if ai else _eq(a, b))
    return same


def h_script_cmds(ex, nitems, opaque):
    """Script(commands).serialize() == reference serialization (minimal pushes); parse(serialized) gives back the
    same items and re-serializes to the same bytes.  Items: an opcode (symbolic byte outside the push range), a
    plain data item (fully symbolic content) or an opaque data item (see opaque_blob)."""
    E, S = _mods()
    cmds = []
    for k in range(nitems):
        kind = ex.choose('kind%d' % k, ['op', 'plain', 'opaque'])
        if kind == 'op':
            o = ex.int('op%d' % k, 0, 255)
            # bytes 1..78 are push opcodes (never stored as int commands); 0 is stored as int 0 (OP_0)
            ex.assume(s_or(o == 0, o >= 79))
            cmds.append(o)
        elif kind == 'plain':
            ln = ex.choose('len%d' % k, PLAIN_LENGTHS)
            cmds.append(ex.bytes('data%d' % k, ln))
        else:
            ln = ex.choose('len%d' % k, opaque)
            cmds.append(opaque_blob(ex, 'data%d' % k, ln))
    s = S.Script(commands=list(cmds))
    raw = s.serialize()
    ex.check(_eq(raw, _ref_serialize(cmds)), 'serialize-definition')
    heur = _heuristic_hit(raw)
    try:
        p = S.Script.parse_bytes(raw if not ex.concrete else bytes(raw))
    except S.ScriptError:
        ex.check(False, 'parse-of-own-serialization-accepted', known=kf('C18-parse-size-heuristics', heur))
        return
    k = kf('C18-parse-size-heuristics', heur)
    ex.check(_same_items(p.commands, cmds), 'parse-recovers-items', known=k)
    ex.check(_eq(p.serialize(), raw), 'reserialize-identity', known=k)


def h_script_heuristic_exhibit(ex):
    """two ordinary pushes whose serialization is 64 bytes long: shows the listed size-heuristic finding"""
    E, S = _mods()
    cmds = [ex.bytes('a', 32), ex.bytes('b', 30)]
    raw = S.Script(commands=list(cmds)).serialize()
    heur = _heuristic_hit(raw)
    p = S.Script.parse_bytes(raw if not ex.concrete else bytes(raw))
    ex.check(_same_items(p.commands, cmds), 'parse-recovers-items', known=kf('C18-parse-size-heuristics', heur))


def h_script_nested_exhibit(ex):
    """a data item of a length that is parsed as a nested script and whose content is a well-formed script:
    shows the listed nested-data finding (single item: flattened; non-minimal inner push: re-encoded)"""
    E, S = _mods()
    which = ex.choose('shape', ['single', 'second'])
    x = ex.bytes('x', 1)
    inner = b'\x4c\x01' + x + b'\x51\x51'               # PUSHDATA1 <1 byte> OP_1 OP_1 : a well formed script
    cmds = [inner] if which == 'single' else [0x51, inner]
    raw = S.Script(commands=list(cmds)).serialize()
    p = S.Script.parse_bytes(raw if not ex.concrete else bytes(raw))
    ex.check(_eq(p.serialize(), raw), 'reserialize-identity', known=kf('C18-parse-nested-data', True))


def jobs(tier):
    q = tier == 'quick'
    J = []
    J.append(Job('compact_encode', h_compact_encode, W=72, setup=setup))
    J.append(Job('compact_decode', h_compact_decode, W=72, setup=setup))
    J.append(Job('compact_short', h_compact_short, W=72, setup=setup))
    J.append(Job('varstr', h_varstr, W=72, setup=setup,
                 params=dict(lengths=[0, 1, 2, 25, 75, 76, 252, 253, 254, 255, 256, 65535, 65536])))
    J.append(Job('scriptnum_encode', h_scriptnum_encode, W=80, setup=setup))
    J.append(Job('scriptnum_decode', h_scriptnum_decode, W=80, setup=setup))
    J.append(Job('data_pack', h_data_pack, W=40, setup=setup))
    J.append(Job('script_raw_1_2', h_script_raw_roundtrip, W=40, setup=setup, params=dict(lengths=[0, 1, 2]), budget_s=1500))
    # (fully symbolic raw scripts of 3 bytes: more than 30 000 paths, did not finish in 50 min - not registered)
    for n in ([1, 2] if q else [1, 2, 3]):
        J.append(Job('script_cmds_%d' % n, h_script_cmds, W=40, setup=setup,
                     params=dict(nitems=n, opaque=OPAQUE_LENGTHS_Q if (q or n == 3) else OPAQUE_LENGTHS_T), budget_s=3000 if q else 9000))
    J.append(Job('script_heuristic_exhibit', h_script_heuristic_exhibit, W=40, setup=setup))
    J.append(Job('script_nested_exhibit', h_script_nested_exhibit, W=40, setup=setup))
    return J
