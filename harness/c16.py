"""C16 - public views and default exports never contain private key material (Key / HDKey part).

Real code executed symbolically: Key.public, HDKey.public, Key.as_dict / HDKey.as_dict (include_private=False),
as_json, __repr__, __str__, wif_public, Key.wif / wif_key / wif_private / as_dict(include_private=True) / address /
hash160 as PRIOR calls (caches filled by earlier calls may survive the stripping).

Decision procedure: the secret is 32 symbolic bytes.  After a solver-chosen history of prior calls, every value
reachable from the public view is collected; a value LEAKS iff z3 finds two secrets that give different values for
it (with every other symbol equal) - hashes are uninterpreted fresh symbols (one-way), invertible encodings (bytes,
hex, int, base58 under the inverse-pair stub) keep the dependence."""
import z3
from symx import core, shims, stubs
from symx.core import SBytes, SInt, SStr, SChar, SBool, s_and, s_or, s_not
from vtlib.api import Job, kf
from harness import c12, c04

PROPERTY = 'C16'
ASSUMPTIONS = [
    'hashes (hash160, sha256, double_sha256) are one-way: modelled as fresh uninterpreted symbols, so a value derived only through a hash does not count as private material; bytes / hex / int / base58 (inverse-pair stub) encodings are invertible and do count',
    'key objects are built with __new__ and symbolic fields (the constructor calls C code); json.dumps is the identity on the dictionary it is given',
    'a value formatted into a string by C-level formatting is tracked through an indexed placeholder',
]
BOUNDS = {'quick': 'every 32-byte secret; Key and HDKey objects; every history of <= 2 prior calls from {wif / wif_key, wif_private, as_dict(include_private=True), address, none}; views: public() object graph (incl. its deep copy and __reduce_ex__ state), as_dict(), as_json(), repr, str, wif_public() with and without explicit prefix / witness type, public().wif(); wallet level over a stand-in database session (arbitrary rows): repr / as_dict / public() of WalletKey, Wallet.keys(as_dict=True, <filters>), addresslist, Wallet repr / as_dict / as_json, public_master / wif(is_private=False) of single-key wallets, after <= 1 prior private export',
          'thorough': 'histories of <= 3 prior calls (wallet level: <= 2)'}
OUTSIDE = 'the database field encryption (SQLAlchemy type decorators / AES: C code, no symbolic reach), public_master / wif of BIP32 wallets (key derivation through the database), multisig cosigner wallets; Transaction and Address views (they hold no private fields)'


def _mods():
    import bitcoinlib.keys as K
    return K


class _FakeJson:
    @staticmethod
    def dumps(obj, **k):
        return obj


def setup(ex):
    c04.setup(ex)
    K = _mods()
    shims.install(K, json=_FakeJson, str=shims.StrShim)


def mk_key(ex, K, cls):
    S = ex.bytes('secret', 32)
    if ex.concrete:
        for nm in ('pub_x', 'pub_y', 'chain'):
            ex.inp.setdefault(nm, b'\x11' * 32)
        return (K.Key(bytes(S)) if cls == 'Key' else K.HDKey(bytes(S), chain=bytes(ex.inp['chain']), depth=3, child_index=7, parent_fingerprint=b'\x01\x02\x03\x04')), S
    P = b'\x02' + ex.bytes('pub_x', 32)
    PU = b'\x04' + P[1:] + ex.bytes('pub_y', 32)
    k = (K.Key if cls == 'Key' else K.HDKey).__new__(K.Key if cls == 'Key' else K.HDKey)
    k.private_byte, k.secret, k.private_hex = S, shims.IntShim.from_bytes(S, 'big'), S.hex()
    k.public_byte = k.public_compressed_byte = P
    k.public_hex = k.public_compressed_hex = P.hex()
    k._public_uncompressed_byte, k._public_uncompressed_hex = PU, PU.hex()
    k._x, k._y = shims.IntShim.from_bytes(P[1:], 'big'), shims.IntShim.from_bytes(PU[33:], 'big')
    k.x_hex, k.y_hex = P[1:].hex(), PU[33:].hex()
    k.compressed, k.is_private, k.key_format = True, True, 'hex'
    k.network = K.Network('bitcoin')
    k._hash160 = k._address_obj = k._wif = k._wif_prefix = None
    if cls == 'HDKey':
        k.chain = ex.bytes('chain', 32)
        k.depth, k.child_index, k.parent_fingerprint = 3, 7, b'\x01\x02\x03\x04'
        k.key_type, k.witness_type, k.multisig, k.encoding, k.script_type = 'bip32', 'segwit', False, 'bech32', 'p2wpkh'
        k.key_hex = k.private_hex
    return k, S


PRIOR = {
    'none': lambda k: None,
    'wif': lambda k: k.wif() if type(k).__name__ == 'Key' else k.wif_key(),
    'wif_private': lambda k: k.wif_private() if hasattr(k, 'wif_private') else k.wif(),
    'as_dict_private': lambda k: k.as_dict(include_private=True),
    'address': lambda k: k.address(),
    'hash160': lambda k: k.hash160,
}
VIEWS = {
    'public_object': lambda k: k.public().__dict__,
    'public_deepcopy': lambda k: __import__('copy').deepcopy(k.public()).__dict__,
    'public_reduce_state': lambda k: k.public().__reduce_ex__(2),
    'public_as_dict': lambda k: k.public().as_dict(),
    'public_wif': lambda k: _try(lambda: k.public().wif()),
    'as_dict': lambda k: k.as_dict(),
    'as_json': lambda k: k.as_json(),
    'repr': lambda k: repr(k),
    'str': lambda k: type(k).__str__(k),
    'wif_public': lambda k: k.wif_public() if hasattr(k, 'wif_public') else k.public_hex,
    # the same public exports with the optional arguments spelled out (explicit version prefix / witness type)
    'wif_public(prefix=xpub version bytes)': lambda k: k.wif_public(prefix=b'\x04\x88\xb2\x1e') if hasattr(k, 'wif_public') else None,
    'wif(is_private=False, prefix=...)': lambda k: k.wif(is_private=False, prefix=b'\x04\x88\xb2\x1e') if hasattr(k, 'wif_public') else None,
    'wif_public(witness_type=p2sh-segwit, multisig=True)': lambda k: k.wif_public(witness_type='p2sh-segwit', multisig=True) if hasattr(k, 'wif_public') else None,
    'public().wif_public(prefix=...)': lambda k: k.public().wif_public(prefix=b'\x04\x88\xb2\x1e') if hasattr(k, 'wif_public') else None,
}


def _try(f):
    K = _mods()
    try:
        return f()
    except K.BKeyError:
        return None


def leaves(ex, v, out, seen, depth=0):
    """collect z3 terms of every value reachable from v"""
    if id(v) in seen or depth > 8:
        return
    seen.add(id(v))
    if isinstance(v, SInt):
        out.append(v.t)
    elif isinstance(v, SBool):
        out.append(v.t)
    elif isinstance(v, SBytes):
        out.extend(x for x in v.b if not isinstance(x, int))
    elif isinstance(v, SStr):
        out.extend(x.t for x in v.c if isinstance(x, SInt))
    elif isinstance(v, SChar):
        leaves(ex, v.c, out, seen, depth + 1)
    elif isinstance(v, str):
        import re
        for m in re.finditer(r'<sym#(\d+)>', v):
            leaves(ex, ex.placeholders[int(m.group(1))], out, seen, depth + 1)
    elif isinstance(v, (bytes, int, float, bool)) or v is None:
        return
    elif isinstance(v, dict):
        for a, b in v.items():
            leaves(ex, a, out, seen, depth + 1)
            leaves(ex, b, out, seen, depth + 1)
    elif isinstance(v, (list, tuple, set)):
        for a in v:
            leaves(ex, a, out, seen, depth + 1)
    elif isinstance(v, (c12.B58,)):
        leaves(ex, v.data, out, seen, depth + 1)
    elif isinstance(v, c04.Opaque):
        leaves(ex, v.payload, out, seen, depth + 1)
        leaves(ex, v.prefix, out, seen, depth + 1)
    elif type(v).__name__ in ('Network',):
        return
    elif hasattr(v, '__dict__'):
        leaves(ex, v.__dict__, out, seen, depth + 1)


def depends_on_secret(ex, terms, S):
    """does some collected value change when only the secret changes? (solver query; hashes are fresh symbols)"""
    svars = [x for x in S.b]
    fresh = [z3.BitVec('alt_secret_%d' % i, 8) for i in range(len(svars))]
    sub = list(zip(svars, fresh))
    diffs = []
    for t in terms:
        t2 = z3.substitute(t, *sub)
        if not t2.eq(t):
            diffs.append(t != t2)
    if not diffs:
        return False
    s = z3.Solver()
    s.set('timeout', 60000)
    s.add(z3.Or(diffs))
    r = s.check()
    ex.stats['queries'] += 1
    if r == z3.unknown:
        raise core.EngineLimit("dependence query unknown")
    return r == z3.sat


def concrete_leak(v, secret, seen, depth=0):
    """replay: does any reachable value contain the secret as raw bytes, hex, integer, or inside a base58 string?"""
    if id(v) in seen or depth > 8:
        return False
    seen.add(id(v))
    sint = int.from_bytes(secret, 'big')
    if isinstance(v, bool) or v is None:
        return False
    if isinstance(v, int):
        return v == sint
    if isinstance(v, (bytes, bytearray)):
        return secret in bytes(v)
    if isinstance(v, str):
        if secret.hex() in v.lower() or str(sint) in v:
            return True
        for tok in __import__('re').findall(r'[1-9A-HJ-NP-Za-km-z]{40,}', v):
            try:
                if secret in c12._b58dec(tok):
                    return True
            except Exception:
                pass
        return False
    if isinstance(v, dict):
        return any(concrete_leak(a, secret, seen, depth + 1) or concrete_leak(b, secret, seen, depth + 1) for a, b in v.items())
    if isinstance(v, (list, tuple, set)):
        return any(concrete_leak(a, secret, seen, depth + 1) for a in v)
    if type(v).__name__ == 'Network':
        return False
    if hasattr(v, '__dict__'):
        return concrete_leak(v.__dict__, secret, seen, depth + 1)
    return False


def h_views(ex, cls, nprior, priors=None, first=None):
    K = _mods()
    k, S = mk_key(ex, K, cls)
    ex.assume(s_not(s_and(*[b == 0 for b in S])))        # zero is not a key (wif() refuses it)
    for n in range(nprior):
        p = first if (n == 0 and first) else ex.choose('prior%d' % n, list(priors or PRIOR))
        PRIOR[p](k)
    view = ex.choose('view', list(VIEWS))
    v = VIEWS[view](k)
    if ex.concrete:
        ex.check(not concrete_leak(v, bytes(S), set()), 'public-view-independent-of-secret')
        return
    terms = []
    leaves(ex, v, terms, set())
    leak = depends_on_secret(ex, terms, S)
    ex.check(not leak, 'public-view-independent-of-secret')
    ex.sample(cls=cls, view=view, values_inspected=len(terms))
    # sanity of the decision procedure itself: the private export does depend on the secret
    if view == 'repr':
        t2 = []
        leaves(ex, k.private_byte, t2, set())
        ex.check(depends_on_secret(ex, t2, S), 'self-check-private-bytes-are-detected')


# ---------------------------------------------------------------------------------------------------------------
# wallet level: WalletKey / Wallet views over a stand-in database session (the database returns arbitrary rows)

class _Row:
    """a row object as SQLAlchemy hands it out (attribute access, __dict__ with the loaded columns)"""

    def __init__(self, **kw):
        self.__dict__.update(kw)
        self.__dict__['_sa_instance_state'] = None


class _Handle:
    """database handles (session, wallet relationship): access paths to the database, not part of a view"""


class _Query(_Handle):
    def __init__(self, rows, kind, session=None):
        self.rows, self.kind, self.session = rows, kind, session

    def filter_by(self, **kw):
        if 'id' in kw and self.kind in ('key', 'wallet'):
            return _Query([r for r in self.rows if r.id == int(kw['id'])], self.kind, self.session)
        return self

    def filter(self, *a):
        if self.kind == 'wallet':
            return _Query([], 'wallet', self.session)            # "child wallets of this wallet": none (not a multisig wallet)
        return self

    def _same(self, *a, **k):
        return self
    order_by = group_by = join = distinct = limit = options = outerjoin = _same

    def all(self):
        return list(self.rows)

    def first(self):
        return self.rows[0] if self.rows else None

    def scalar(self):
        return self.rows[0] if self.rows else None

    def count(self):
        return len(self.rows)


class _Session(_Handle):
    def __init__(self, keys, wallets):
        self.keys, self.wallets = keys, wallets

    def query(self, *ents):
        nm = getattr(ents[0], '__name__', None) or str(ents[0])
        if nm == 'DbKey':
            return _Query(self.keys, 'key', self)
        if nm == 'DbWallet':
            return _Query(self.wallets, 'wallet', self)
        if 'DbKey.' in nm or 'keys.' in nm:
            return _Query([(getattr(r, nm.split('.')[-1], None),) for r in self.keys], 'col', self)
        return _Query([], 'other', self)

    def close(self, *a, **k):
        pass
    commit = rollback = flush = bulk_update_mappings = bulk_save_objects = add = merge = expire_all = close


def mk_wallet_db(ex, key_type):
    """one wallet with two key rows whose private columns hold the secret: the master key and an address key"""
    S = ex.bytes('secret', 32)
    P = b'\x02' + ex.bytes('pub_x', 32)
    chain = ex.bytes('chain', 32)
    H = c12._H['d']
    raw = bytes.fromhex('04b2430c') + b'\x00' + b'\x00' * 4 + b'\x00' * 4 + chain + b'\x00' + S         # zprv
    wif = c12.B58(raw + H(raw)[:4])
    wrow = _Row(id=1, name='w', owner='', network_name='bitcoin', purpose=84, scheme='bip32' if key_type == 'bip32' else 'single',
                main_key_id=1, default_account_id=0, multisig_n_required=1, sort_keys=False, witness_type='segwit', encoding='bech32',
                multisig=False, cosigner_id=None, key_path="m/purpose'/coin_type'/account'/change/address_index", parent_id=None,
                anti_fee_sniping=True)
    handle = _Handle()
    handle.network_name = 'bitcoin'
    rows = []
    for i, (depth, path, nm) in enumerate([(0, 'm', 'w'), (5, "m/84'/0'/0'/0/0", 'address index 0')], 1):
        rows.append(_Row(id=i, parent_id=0 if i == 1 else 1, name=nm, account_id=0, depth=depth, change=0, address_index=0, public=P, private=S,
                         wif=wif, compressed=True, key_type=key_type, address='bc1q-address', cosigner_id=None, encoding='bech32', purpose=84,
                         is_private=True, path=path, wallet_id=1, wallet=handle, balance=0, used=False, network_name='bitcoin', latest_txid=None,
                         witness_type='segwit', multisig_children=[]))
    return _Session(rows, [wrow]), S


def _real_wallet(ex, key_type):
    """replay: a real wallet in a scratch sqlite file whose master private key is the recorded secret"""
    import os, tempfile
    from bitcoinlib.wallets import Wallet
    from bitcoinlib.keys import HDKey
    S = bytes(ex.bytes('secret', 32))
    d = tempfile.mkdtemp(prefix='c16w')
    hk = HDKey(S, chain=bytes(ex.inp.get('chain', b'\x11' * 32)), witness_type='segwit') if key_type == 'bip32' else HDKey(S, key_type='single', witness_type='segwit')
    w = Wallet.create('w', keys=hk, network='bitcoin', witness_type='segwit', db_uri='sqlite:///%s/w.db' % d,
                      **({'scheme': 'single'} if key_type == 'single' else {}))
    if key_type == 'bip32':
        w.get_key()
    return w, S, d


WPRIOR = {
    'none': lambda w: None,
    'main_key.key()': lambda w: w.main_key.key(),
    'main_key.as_dict(include_private=True)': lambda w: w.main_key.as_dict(include_private=True),
    'keys(as_dict=True, include_private=True)': lambda w: w.keys(as_dict=True, include_private=True),
    'wif(is_private=True)': lambda w: w.wif(is_private=True),
}
WVIEWS = {
    'repr(main_key)': lambda w: repr(w.main_key),
    'main_key.as_dict()': lambda w: w.main_key.as_dict(),
    'main_key.public() object': lambda w: w.main_key.public().__dict__,
    'main_key.public().as_dict()': lambda w: w.main_key.public().as_dict(),
    'repr(main_key.public())': lambda w: repr(w.main_key.public()),
    'main_key.public().key() object': lambda w: w.main_key.public().key().__dict__,
    'keys(as_dict=True)': lambda w: w.keys(as_dict=True),
    'keys(as_dict=True, is_private=True)': lambda w: w.keys(as_dict=True, is_private=True),
    'keys(as_dict=True, is_private=False)': lambda w: w.keys(as_dict=True, is_private=False),
    'keys(as_dict=True, depth=0)': lambda w: w.keys(as_dict=True, depth=0),
    'addresslist()': lambda w: w.addresslist(),
    'repr(wallet)': lambda w: repr(w),
    'as_dict()': lambda w: w.as_dict(),
    'as_json()': lambda w: w.as_json(),
    'wif(is_private=False) [single-key wallet]': lambda w: w.wif(is_private=False) if w.main_key.key_type == 'single' else None,
    'public_master() object [single-key wallet]': lambda w: w.public_master().__dict__ if w.main_key.key_type == 'single' else None,
}


def _wleaves(ex, v, out, seen):
    """leaves() that does not follow database handles"""
    def strip(x, depth=0):
        if isinstance(x, _Handle) or type(x).__name__ in ('Session', 'DbWallet', 'Engine', 'scoped_session'):
            return None
        if isinstance(x, dict) and depth < 6:
            return {a: strip(b, depth + 1) for a, b in x.items()}
        if isinstance(x, (list, tuple)) and depth < 6:
            return [strip(b, depth + 1) for b in x]
        if hasattr(x, '__dict__') and not isinstance(x, (SInt, SBool, SBytes, SStr, SChar, c12.B58, c04.Opaque)) and type(x).__name__ != 'Network' and depth < 6:
            return {'__class__': type(x).__name__, **{a: strip(b, depth + 1) for a, b in x.__dict__.items()}}
        return x
    return strip(v)


def h_wallet_views(ex, key_type, nprior):
    """wallet level: after any history of private exports, the default views of WalletKey / Wallet objects (repr,
    as_dict, as_json, public(), keys(as_dict=True, <any filter>), public_master / wif(is_private=False)) do not depend
    on the private key stored in the database rows"""
    K = _mods()
    import bitcoinlib.wallets as WL
    scratch = None
    if ex.concrete:
        w, S, scratch = _real_wallet(ex, key_type)
    else:
        session, S = mk_wallet_db(ex, key_type)
        ex.assume(s_not(s_and(*[b == 0 for b in S])))
        sv = shims.IntShim.from_bytes(S, 'big')
        ex.assume(sv <= c12.N - 1)
        w = WL.Wallet(1, session=session)
    try:
        for n in range(nprior):
            WPRIOR[ex.choose('prior%d' % n, list(WPRIOR))](w)
        view = ex.choose('view', list(WVIEWS))
        known = kf('C16-walletkey-repr-shows-private-wif', view == 'repr(main_key)')
        v = _wleaves(ex, WVIEWS[view](w), None, None)
        if ex.concrete:
            ex.check(not concrete_leak(v, bytes(S), set()), 'wallet-view-independent-of-secret', known=known)
            return
        terms = []
        leaves(ex, v, terms, set())
        ex.check(not depends_on_secret(ex, terms, S), 'wallet-view-independent-of-secret', known=known)
        ex.sample(view=view, values_inspected=len(terms))
    finally:
        if scratch:
            try:
                w.session.close()
            except Exception:
                pass
            __import__('shutil').rmtree(scratch, ignore_errors=True)


def wsetup(ex):
    setup(ex)
    import bitcoinlib.wallets as WL
    shims.install(WL, json=_FakeJson, _logger=c12.NullLog())


def jobs(tier):
    q = tier == 'quick'
    J = []
    for cls in ('Key', 'HDKey'):
        if q:
            for first in ('none', 'wif', 'wif_private', 'as_dict_private'):
                J.append(Job('views_%s_after_%s' % (cls, first), h_views, W=272, setup=setup, budget_s=3000,
                             params=dict(cls=cls, nprior=2, first=first, priors=['none', 'wif', 'wif_private', 'as_dict_private', 'address'])))
        else:
            for first in PRIOR:
                J.append(Job('views_%s_after_%s' % (cls, first), h_views, W=272, setup=setup, budget_s=6000,
                             params=dict(cls=cls, nprior=3, first=first)))
    for kt in ('bip32', 'single'):
        J.append(Job('wallet_views_%s' % kt, h_wallet_views, W=272, setup=wsetup, budget_s=3000, params=dict(key_type=kt, nprior=1 if q else 2)))
    return J
