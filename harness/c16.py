"""C16 - public views and default exports never contain private key material (Key / HDKey part).

Real code executed symbolically: Key.public, HDKey.public, Key.as_dict / HDKey.as_dict (include_private=False),
as_json, __repr__, __str__, wif_public, Key.wif / wif_key / wif_private / as_dict(include_private=True) / address /
hash160 as PRIOR calls (caches filled by earlier calls may survive the stripping).

Decision procedure: the secret is 32 symbolic bytes.  After a solver-chosen history of prior calls, every value
reachable from the public view is collected; a value LEAKS iff z3 finds two secrets that give different values for
it (with every other symbol equal) - hashes are uninterpreted fresh symbols (one-way), invertible encodings (bytes,
hex, int, base58 under the inverse-pair stub) keep the dependence."""
import z3
from symx import core, shims, stubs
from symx.core import SBytes, SInt, SStr, SChar, SBool, s_and, s_or, s_not
from vtlib.api import Job, kf
from harness import c12, c04

PROPERTY = 'C16'
ASSUMPTIONS = [
    'hashes (hash160, sha256, double_sha256) are one-way: modelled as fresh uninterpreted symbols, so a value derived only through a hash does not count as private material; bytes / hex / int / base58 (inverse-pair stub) encodings are invertible and do count',
    'key objects are built with __new__ and symbolic fields (the constructor calls C code); json.dumps is the identity on the dictionary it is given',
    'a value formatted into a string by C-level formatting is tracked through an indexed placeholder',
]
BOUNDS = {'quick': 'every 32-byte secret; Key and HDKey objects; every history of <= 2 prior calls from {wif / wif_key, wif_private, as_dict(include_private=True), address, none}; views: public() object graph (incl. its deep copy and __reduce_ex__ state), as_dict(), as_json(), repr, str, wif_public(), public().wif()',
          'thorough': 'histories of <= 3 prior calls'}
OUTSIDE = 'WalletKey.public, Wallet.wif / as_dict / public_master and the database field encryption (SQLAlchemy / AES); Transaction and Address views (they hold no private fields)'


def _mods():
    import bitcoinlib.keys as K
    return K


class _FakeJson:
    @staticmethod
    def dumps(obj, **k):
        return obj


def setup(ex):
    c04.setup(ex)
    K = _mods()
    shims.install(K, json=_FakeJson, str=shims.StrShim)


def mk_key(ex, K, cls):
    S = ex.bytes('secret', 32)
    if ex.concrete:
        for nm in ('pub_x', 'pub_y', 'chain'):
            ex.inp.setdefault(nm, b'\x11' * 32)
        return (K.Key(bytes(S)) if cls == 'Key' else K.HDKey(bytes(S), chain=bytes(ex.inp['chain']), depth=3, child_index=7, parent_fingerprint=b'\x01\x02\x03\x04')), S
    P = b'\x02' + ex.bytes('pub_x', 32)
    PU = b'\x04' + P[1:] + ex.bytes('pub_y', 32)
    k = (K.Key if cls == 'Key' else K.HDKey).__new__(K.Key if cls == 'Key' else K.HDKey)
    k.private_byte, k.secret, k.private_hex = S, shims.IntShim.from_bytes(S, 'big'), S.hex()
    k.public_byte = k.public_compressed_byte = P
    k.public_hex = k.public_compressed_hex = P.hex()
    k._public_uncompressed_byte, k._public_uncompressed_hex = PU, PU.hex()
    k._x, k._y = shims.IntShim.from_bytes(P[1:], 'big'), shims.IntShim.from_bytes(PU[33:], 'big')
    k.x_hex, k.y_hex = P[1:].hex(), PU[33:].hex()
    k.compressed, k.is_private, k.key_format = True, True, 'hex'
    k.network = K.Network('bitcoin')
    k._hash160 = k._address_obj = k._wif = k._wif_prefix = None
    if cls == 'HDKey':
        k.chain = ex.bytes('chain', 32)
        k.depth, k.child_index, k.parent_fingerprint = 3, 7, b'\x01\x02\x03\x04'
        k.key_type, k.witness_type, k.multisig, k.encoding, k.script_type = 'bip32', 'segwit', False, 'bech32', 'p2wpkh'
        k.key_hex = k.private_hex
    return k, S


PRIOR = {
    'none': lambda k: None,
    'wif': lambda k: k.wif() if type(k).__name__ == 'Key' else k.wif_key(),
    'wif_private': lambda k: k.wif_private() if hasattr(k, 'wif_private') else k.wif(),
    'as_dict_private': lambda k: k.as_dict(include_private=True),
    'address': lambda k: k.address(),
    'hash160': lambda k: k.hash160,
}
VIEWS = {
    'public_object': lambda k: k.public().__dict__,
    'public_deepcopy': lambda k: __import__('copy').deepcopy(k.public()).__dict__,
    'public_reduce_state': lambda k: k.public().__reduce_ex__(2),
    'public_as_dict': lambda k: k.public().as_dict(),
    'public_wif': lambda k: _try(lambda: k.public().wif()),
    'as_dict': lambda k: k.as_dict(),
    'as_json': lambda k: k.as_json(),
    'repr': lambda k: repr(k),
    'str': lambda k: type(k).__str__(k),
    'wif_public': lambda k: k.wif_public() if hasattr(k, 'wif_public') else k.public_hex,
}


def _try(f):
    K = _mods()
    try:
        return f()
    except K.BKeyError:
        return None


def leaves(ex, v, out, seen, depth=0):
    """collect z3 terms of every value reachable from v"""
    if id(v) in seen or depth > 8:
        return
    seen.add(id(v))
    if isinstance(v, SInt):
        out.append(v.t)
    elif isinstance(v, SBool):
        out.append(v.t)
    elif isinstance(v, SBytes):
        out.extend(x for x in v.b if not isinstance(x, int))
    elif isinstance(v, SStr):
        out.extend(x.t for x in v.c if isinstance(x, SInt))
    elif isinstance(v, SChar):
        leaves(ex, v.c, out, seen, depth + 1)
    elif isinstance(v, str):
        import re
        for m in re.finditer(r'<sym#(\d+)>', v):
            leaves(ex, ex.placeholders[int(m.group(1))], out, seen, depth + 1)
    elif isinstance(v, (bytes, int, float, bool)) or v is None:
        return
    elif isinstance(v, dict):
        for a, b in v.items():
            leaves(ex, a, out, seen, depth + 1)
            leaves(ex, b, out, seen, depth + 1)
    elif isinstance(v, (list, tuple, set)):
        for a in v:
            leaves(ex, a, out, seen, depth + 1)
    elif isinstance(v, (c12.B58,)):
        leaves(ex, v.data, out, seen, depth + 1)
    elif isinstance(v, c04.Opaque):
        leaves(ex, v.payload, out, seen, depth + 1)
        leaves(ex, v.prefix, out, seen, depth + 1)
    elif type(v).__name__ in ('Network',):
        return
    elif hasattr(v, '__dict__'):
        leaves(ex, v.__dict__, out, seen, depth + 1)


def depends_on_secret(ex, terms, S):
    """does some collected value change when only the secret changes? (solver query; hashes are fresh symbols)"""
    svars = [x for x in S.b]
    fresh = [z3.BitVec('alt_secret_%d' % i, 8) for i in range(len(svars))]
    sub = list(zip(svars, fresh))
    diffs = []
    for t in terms:
        t2 = z3.substitute(t, *sub)
        if not t2.eq(t):
            diffs.append(t != t2)
    if not diffs:
        return False
    s = z3.Solver()
    s.set('timeout', 60000)
    s.add(z3.Or(diffs))
    r = s.check()
    ex.stats['queries'] += 1
    if r == z3.unknown:
        raise core.EngineLimit("dependence query unknown")
    return r == z3.sat


def concrete_leak(v, secret, seen, depth=0):
    """replay: does any reachable value contain the secret as raw bytes, hex, integer, or inside a base58 string?"""
    if id(v) in seen or depth > 8:
        return False
    seen.add(id(v))
    sint = int.from_bytes(secret, 'big')
    if isinstance(v, bool) or v is None:
        return False
    if isinstance(v, int):
        return v == sint
    if isinstance(v, (bytes, bytearray)):
        return secret in bytes(v)
    if isinstance(v, str):
        if secret.hex() in v.lower() or str(sint) in v:
            return True
        for tok in __import__('re').findall(r'[1-9A-HJ-NP-Za-km-z]{40,}', v):
            try:
                if secret in c12._b58dec(tok):
                    return True
            except Exception:
                pass
        return False
    if isinstance(v, dict):
        return any(concrete_leak(a, secret, seen, depth + 1) or concrete_leak(b, secret, seen, depth + 1) for a, b in v.items())
    if isinstance(v, (list, tuple, set)):
        return any(concrete_leak(a, secret, seen, depth + 1) for a in v)
    if type(v).__name__ == 'Network':
        return False
    if hasattr(v, '__dict__'):
        return concrete_leak(v.__dict__, secret, seen, depth + 1)
    return False


def h_views(ex, cls, nprior, priors=None, first=None):
    K = _mods()
    k, S = mk_key(ex, K, cls)
    ex.assume(s_not(s_and(*[b == 0 for b in S])))        # zero is not a key (wif() refuses it)
    for n in range(nprior):
        p = first if (n == 0 and first) else ex.choose('prior%d' % n, list(priors or PRIOR))
        PRIOR[p](k)
    view = ex.choose('view', list(VIEWS))
    v = VIEWS[view](k)
    if ex.concrete:
        ex.check(not concrete_leak(v, bytes(S), set()), 'public-view-independent-of-secret')
        return
    terms = []
    leaves(ex, v, terms, set())
    leak = depends_on_secret(ex, terms, S)
    ex.check(not leak, 'public-view-independent-of-secret')
    ex.sample(cls=cls, view=view, values_inspected=len(terms))
    # sanity of the decision procedure itself: the private export does depend on the secret
    if view == 'repr':
        t2 = []
        leaves(ex, k.private_byte, t2, set())
        ex.check(depends_on_secret(ex, t2, S), 'self-check-private-bytes-are-detected')


def jobs(tier):
    q = tier == 'quick'
    J = []
    for cls in ('Key', 'HDKey'):
        if q:
            for first in ('none', 'wif', 'wif_private', 'as_dict_private'):
                J.append(Job('views_%s_after_%s' % (cls, first), h_views, W=272, setup=setup, budget_s=3000,
                             params=dict(cls=cls, nprior=2, first=first, priors=['none', 'wif', 'wif_private', 'as_dict_private', 'address'])))
        else:
            for first in PRIOR:
                J.append(Job('views_%s_after_%s' % (cls, first), h_views, W=272, setup=setup, budget_s=6000,
                             params=dict(cls=cls, nprior=3, first=first)))
    return J
