"""C10 - multisig cosigner wallets agree on scripts; exactly m distinct signers suffice (script / signing level).

Real code executed symbolically: the script-building half of Wallet._new_key_multisig (key sort, redeem script via
Script(script_types=['multisig']), script type per witness type, Address construction arguments) executed on a fake
wallet up to its first database query; Transaction.sign placement and Input.verify counting for m-of-n are the C02
obligations (imported here for n <= 4).  Wallet creation, import and broadcast are SQLAlchemy / service code: outside."""
from symx import core, shims, stubs
from symx.core import SBytes, SInt, s_and, s_or, s_not
from vtlib.api import Job, kf
from harness import c02

PROPERTY = 'C10'
ASSUMPTIONS = ['cosigner public keys are arbitrary 33-byte strings; the wallet object is a stand-in with the attributes _new_key_multisig reads; the method is followed up to its first database query (a sentinel)',
               'signing / verification obligations: see C02 (ECDSA abstracted)']
BOUNDS = {'quick': 'n <= 4 cosigner keys in every order, m in 1..n, witness types legacy / p2sh-segwit / segwit, sort_keys True; placement and counting with n <= 3',
          'thorough': 'n <= 5 cosigner keys, placement and counting with n <= 4'}
OUTSIDE = 'Wallet.create multisig branch, cosigner wallets, transaction_import(_raw), export/import between wallets, broadcast - database and service code'


class _Stop(Exception):
    pass


class _Session:
    def query(self, *a, **k):
        raise _Stop()


class _PubK:
    def __init__(self, key_public, key_id):
        self.key_public, self.key_id = key_public, key_id


def setup(ex):
    import bitcoinlib.wallets as W
    import bitcoinlib.scripts as S
    import bitcoinlib.encoding as E
    for m in (S, E):
        shims.install(m, int=shims.IntShim, bytes=shims.BytesShim)
    rec = []
    _REC.clear()
    _REC.append(rec)

    def fake_address(data, **kw):
        rec.append((data, kw))
        raise _Stop()
    shims.install(W, Address=fake_address)


_REC = []


def _eq(a, b):
    if len(a) != len(b):
        return False
    return a == b


def h_redeemscript(ex, n):
    """the redeem script the wallet derives is OP_m <keys in lexicographic order> OP_n OP_CHECKMULTISIG whatever the
    order in which the cosigner keys are held, and its address type follows the witness type"""
    import bitcoinlib.wallets as W
    keys = [b'\x02' + ex.bytes('key%d' % i, 32) for i in range(n)]
    m = ex.int('m', 1, n) if n > 1 else 1
    wt = ex.choose('witness_type', ['legacy', 'p2sh-segwit', 'segwit'])
    w = W.Wallet.__new__(W.Wallet)
    w.sort_keys, w.multisig_n_required, w._session = True, m, _Session()
    rec = _REC[0]
    del rec[:]
    pubs = [_PubK(k, i + 1) for i, k in enumerate(keys)]
    try:
        w._new_key_multisig(pubs, 'name', 0, 0, 0, 'bitcoin', 0, wt)
    except _Stop:
        pass
    if len(rec) != 1:
        ex.check(False, 'address-built-from-redeemscript')
        return
    script, kw = rec[0]
    # parse the produced script
    ok_len = len(script) == 1 + 34 * n + 2
    ex.check(ok_len, 'redeemscript-length')
    if not ok_len:
        return
    out_keys = [script[1 + 34 * i + 1:1 + 34 * i + 34] for i in range(n)]
    ex.check(s_and(script[0] == 0x50 + m, script[1 + 34 * n] == 0x50 + n, script[2 + 34 * n] == 0xae,
                   *[script[1 + 34 * i] == 33 for i in range(n)]), 'redeemscript-opcodes')
    ex.check(s_and(*[out_keys[i] <= out_keys[i + 1] for i in range(n - 1)]), 'keys-in-lexicographic-order')
    # same multiset: every input key occurs at least as often in the output as in the input (n <= 4: check counts)
    same = True
    for k in keys:
        cin = sum(core.s_ite(_eq(k, x), 1, 0) for x in keys)
        cout = sum(core.s_ite(_eq(k, x), 1, 0) for x in out_keys)
        same = s_and(same, cin == cout)
    ex.check(same, 'keys-are-a-permutation-of-the-cosigner-keys')
    want_type = {'legacy': 'p2sh', 'p2sh-segwit': 'p2sh_p2wsh', 'segwit': 'p2wsh'}[wt]
    ex.check(kw.get('script_type') == want_type and kw.get('witness_type') == wt and kw.get('network') == 'bitcoin', 'address-type-follows-witness-type')


def h_threshold_kept(ex):
    """an input that a cosigner wallet rebuilds from a handed-over (unsigned or partly signed) transaction: the real
    Input.__init__, given the wallet's m as sigs_required and the scriptSig found in the transaction, keeps the
    threshold m - a script that carries no threshold of its own (empty, or the 0020<hash> program push of a P2SH-nested
    segwit multisig input) must not reset it"""
    from harness import c01
    T, E, S, K = c01._mods()
    n = ex.choose('n', [2, 3])
    m = ex.choose('m', list(range(1, n + 1)))
    kind = ex.choose('scriptsig', ['empty', 'p2sh_p2wsh program push'])
    wt = {'empty': ex.choose('witness_type', ['legacy', 'segwit']) if kind == 'empty' else None}.get(kind) or 'p2sh-segwit'
    txid = ex.bytes('txid', 32)
    ex.assume(txid[0] >= 0x80)          # (a txid of ASCII hex digits would be hex-decoded by to_bytes: C06 finding)
    if kind == 'empty':
        us = b''
    else:
        us = b'\x22\x00\x20' + ex.bytes('program', 32)
    with shims.unshimmed():
        keys = [K.Key(bytes([2]) + bytes([0x80 + i]) * 32) for i in range(n)]          # concrete cosigner keys
    if not ex.concrete:
        shims.install(T, _logger=c01._NullLog(), Address=c01._FakeAddress)
    st = {'legacy': 'p2sh_multisig', 'segwit': 'p2sh_multisig', 'p2sh-segwit': 'p2sh_p2wsh'}[wt]
    inp = T.Input(prev_txid=txid if not ex.concrete else bytes(txid), output_n=0, keys=keys, unlocking_script=us if not ex.concrete else bytes(us),
                  script_type=st, sigs_required=m, sort=True, value=100000, witness_type=wt, network='bitcoin', strict=False)
    ex.check(inp.sigs_required == m, 'imported-input-keeps-the-wallets-threshold')
    ex.check(len(inp.keys) == n, 'imported-input-keeps-the-cosigner-keys')


def jobs(tier):
    q = tier == 'quick'
    J = [Job('redeemscript_%d' % n, h_redeemscript, W=40, setup=setup, params=dict(n=n), budget_s=3000) for n in ([1, 2, 3, 4] if q else [1, 2, 3, 4, 5])]
    from harness import c01
    J.append(Job('threshold_kept', h_threshold_kept, W=72, setup=c01.setup_init, budget_s=1500))
    J.append(Job('counting', c02.h_counting, W=40, setup=c02.setup, params=dict(maxn=3 if q else 4), budget_s=3000))
    J.append(Job('placement', c02.h_placement, W=40, setup=c02.setup, params=dict(maxn=3 if q else 4, ncalls=3 if q else 4), budget_s=3000))
    return J
