"""C10 - multisig cosigner wallets agree on scripts; exactly m distinct signers suffice, through any hand-off.

Real code executed symbolically: the script-building half of Wallet._new_key_multisig (key sort, redeem script via
Script(script_types=['multisig']), script type per witness type, Address construction arguments) on a stand-in wallet up
to its first database query; Transaction.sign placement and Input.verify counting for m-of-n (the C02 obligations),
also when signatures lose their key in a dictionary hand-off; Input.__init__ on the scriptSig a cosigner finds in a
handed-over transaction (threshold kept); Wallet.transaction_import (object and dictionary branch, transaction_create
recorded) and Wallet.transaction_create with handed-over inputs on a stand-in multisig wallet (symx.sqlmini)."""
from symx import core, shims, stubs
from symx.core import SBytes, SInt, s_and, s_or, s_not
from vtlib.api import Job, kf
from harness import c02

PROPERTY = 'C10'
ASSUMPTIONS = ['cosigner public keys are arbitrary 33-byte strings; the wallet object is a stand-in with the attributes _new_key_multisig reads; the method is followed up to its first database query (a sentinel)',
               'signing / verification obligations: see C02 (ECDSA abstracted to token signatures; verify() remembers the key it was tried with on the signature object, as Signature.verify does)',
               'hand-off jobs: transaction_create is recorded (import job) or runs on the stand-in database of C07 with key lookup / change keys / fee provider stubbed (threshold job)']
BOUNDS = {'quick': 'n <= 4 cosigner keys in every order, m in 1..n, witness types legacy / p2sh-segwit / segwit, sort_keys True; placement and counting with n <= 3 and <= 3 sign() calls, optionally with a dictionary hand-off after each call; imported input: empty scriptSig or the 0020<32 symbolic bytes> program push, n in {2,3}, every m; import: every lock time, version, input sequence (32 bit), block height, as object and as dictionary; transaction_create with one handed-over input (Input object carrying any threshold 1..3, or tuple), wallet m in 1..3, any value / amount / fee',
          'thorough': 'n <= 5 cosigner keys, placement and counting with n <= 4'}
OUTSIDE = 'Wallet.create multisig branch and cosigner wallet objects (database writes), transaction_import_raw parsing (C06), broadcast / send refusal, account handling of cosigner wallets, more than one input per handed-over transaction'


class _Stop(Exception):
    pass


class _Session:
    def query(self, *a, **k):
        raise _Stop()


class _PubK:
    def __init__(self, key_public, key_id):
        self.key_public, self.key_id = key_public, key_id


def setup(ex):
    import bitcoinlib.wallets as W
    import bitcoinlib.scripts as S
    import bitcoinlib.encoding as E
    for m in (S, E):
        shims.install(m, int=shims.IntShim, bytes=shims.BytesShim)
    rec = []
    _REC.clear()
    _REC.append(rec)

    def fake_address(data, **kw):
        rec.append((data, kw))
        raise _Stop()
    shims.install(W, Address=fake_address)


_REC = []


def _eq(a, b):
    if len(a) != len(b):
        return False
    return a == b


def h_redeemscript(ex, n):
    """the redeem script the wallet derives is OP_m <keys in lexicographic order> OP_n OP_CHECKMULTISIG whatever the
    order in which the cosigner keys are held, and its address type follows the witness type"""
    import bitcoinlib.wallets as W
    keys = [b'\x02' + ex.bytes('key%d' % i, 32) for i in range(n)]
    m = ex.int('m', 1, n) if n > 1 else 1
    wt = ex.choose('witness_type', ['legacy', 'p2sh-segwit', 'segwit'])
    w = W.Wallet.__new__(W.Wallet)
    w.sort_keys, w.multisig_n_required, w._session = True, m, _Session()
    rec = _REC[0]
    del rec[:]
    pubs = [_PubK(k, i + 1) for i, k in enumerate(keys)]
    try:
        w._new_key_multisig(pubs, 'name', 0, 0, 0, 'bitcoin', 0, wt)
    except _Stop:
        pass
    if len(rec) != 1:
        ex.check(False, 'address-built-from-redeemscript')
        return
    script, kw = rec[0]
    # parse the produced script
    ok_len = len(script) == 1 + 34 * n + 2
    ex.check(ok_len, 'redeemscript-length')
    if not ok_len:
        return
    out_keys = [script[1 + 34 * i + 1:1 + 34 * i + 34] for i in range(n)]
    ex.check(s_and(script[0] == 0x50 + m, script[1 + 34 * n] == 0x50 + n, script[2 + 34 * n] == 0xae,
                   *[script[1 + 34 * i] == 33 for i in range(n)]), 'redeemscript-opcodes')
    ex.check(s_and(*[out_keys[i] <= out_keys[i + 1] for i in range(n - 1)]), 'keys-in-lexicographic-order')
    # same multiset: every input key occurs at least as often in the output as in the input (n <= 4: check counts)
    same = True
    for k in keys:
        cin = sum(core.s_ite(_eq(k, x), 1, 0) for x in keys)
        cout = sum(core.s_ite(_eq(k, x), 1, 0) for x in out_keys)
        same = s_and(same, cin == cout)
    ex.check(same, 'keys-are-a-permutation-of-the-cosigner-keys')
    want_type = {'legacy': 'p2sh', 'p2sh-segwit': 'p2sh_p2wsh', 'segwit': 'p2wsh'}[wt]
    ex.check(kw.get('script_type') == want_type and kw.get('witness_type') == wt and kw.get('network') == 'bitcoin', 'address-type-follows-witness-type')


def setup_import(ex):
    import bitcoinlib.wallets as W
    from harness import c12
    shims.install(W, int=shims.IntShim, _logger=c12.NullLog())


def h_threshold_kept(ex):
    """an input that a cosigner wallet rebuilds from a handed-over (unsigned or partly signed) transaction: the real
    Input.__init__, given the wallet's m as sigs_required and the scriptSig found in the transaction, keeps the
    threshold m - a script that carries no threshold of its own (empty, or the 0020<hash> program push of a P2SH-nested
    segwit multisig input) must not reset it"""
    from harness import c01
    T, E, S, K = c01._mods()
    n = ex.choose('n', [2, 3])
    m = ex.choose('m', list(range(1, n + 1)))
    kind = ex.choose('scriptsig', ['empty', 'p2sh_p2wsh program push'])
    wt = {'empty': ex.choose('witness_type', ['legacy', 'segwit']) if kind == 'empty' else None}.get(kind) or 'p2sh-segwit'
    txid = ex.bytes('txid', 32)
    ex.assume(txid[0] >= 0x80)          # (a txid of ASCII hex digits would be hex-decoded by to_bytes: C06 finding)
    if kind == 'empty':
        us = b''
    else:
        us = b'\x22\x00\x20' + ex.bytes('program', 32)
    with shims.unshimmed():
        keys = [K.Key(bytes([2]) + bytes([0x80 + i]) * 32) for i in range(n)]          # concrete cosigner keys
    if not ex.concrete:
        shims.install(T, _logger=c01._NullLog(), Address=c01._FakeAddress)
    st = {'legacy': 'p2sh_multisig', 'segwit': 'p2sh_multisig', 'p2sh-segwit': 'p2sh_p2wsh'}[wt]
    inp = T.Input(prev_txid=txid if not ex.concrete else bytes(txid), output_n=0, keys=keys, unlocking_script=us if not ex.concrete else bytes(us),
                  script_type=st, sigs_required=m, sort=True, value=100000, witness_type=wt, network='bitcoin', strict=False)
    ex.check(inp.sigs_required == m, 'imported-input-keeps-the-wallets-threshold')
    ex.check(len(inp.keys) == n, 'imported-input-keeps-the-cosigner-keys')


_REAL = {}


class _Net:
    name = 'bitcoin'


class _RTInput:
    sequence = 0xfffffffe          # what the importing wallet's transaction_create would choose by itself


class _RT:
    """what the (recorded) transaction_create call hands back to transaction_import"""
    def __init__(self, fee):
        # (the importing wallet's own choices, to be overwritten by what was handed over)
        self.fee, self.locktime, self.version_int, self.block_height, self.txid = fee, -1, -1, -1, None
        self.inputs = [_RTInput()]

    def verify(self):
        return True

    def raw(self):
        return b'\x00' * 100


def h_import_forwards_fields(ex):
    """Wallet.transaction_import(<Transaction object or dictionary>): the rebuilt transaction gets the lock time, version,
    txid and block data of the one that was handed over, and transaction_create is asked for the same outputs, inputs and
    fee - so the next cosigner signs the same transaction"""
    import bitcoinlib.wallets as WL
    import bitcoinlib.transactions as T
    form = ex.choose('handed_over_as', ['object', 'dict'])
    locktime = ex.int('locktime', 0, 2 ** 32 - 1)
    version = ex.int('version', 1, 2 ** 31 - 1)
    height = ex.int('block_height', 0, 10 ** 7)
    sequence = ex.int('input_sequence', 0, 2 ** 32 - 1)
    if ex.concrete:
        locktime, version, height, sequence = int(locktime), int(version), int(height), int(sequence)
    w = WL.Wallet.__new__(WL.Wallet)
    calls = []

    def spy(output_arr, input_arr=None, **kw):
        calls.append((output_arr, input_arr, kw))
        return _RT(1500)
    w.transaction_create = spy
    fields = dict(block_height=height, confirmations=3, witness_type='segwit', date=None, txid='ab' * 32, txhash='cd' * 32, locktime=locktime,
                  block_hash=None, coinbase=False, flag=None, size=250, vsize=150)
    if form == 'object':
        t = T.Transaction.__new__(T.Transaction)
        t.__dict__.update(fields, outputs=['the outputs'], inputs=['the inputs'], fee=1500, network=_Net(), version=b'v', version_int=version, rawtx=b'raw')
        rt = w.transaction_import(t)
        ex.check(len(calls) == 1 and calls[0][0] is t.outputs and calls[0][1] is t.inputs and calls[0][2].get('fee') == 1500 and
                 calls[0][2].get('network') == 'bitcoin', 'import-recreates-with-the-same-outputs-inputs-fee')
        ex.check(rt.version_int == version, 'import-keeps-version')
    else:
        d = dict(fields, inputs=[dict(prev_txid='11' * 32, output_n=0, value=7000, signatures=['aa'], script=b'', address='a1', sequence=sequence)],
                 outputs=[dict(address='a2', value=5500)], fee=1500, network='bitcoin', version=version, raw='raw')
        rt = w.transaction_import(d)
        ok = len(calls) == 1 and calls[0][0] == [('a2', 5500)] and len(calls[0][1]) == 1 and tuple(calls[0][1][0][:2]) == ('11' * 32, 0) and \
            calls[0][1][0][3] == 7000 and calls[0][1][0][4] == [b'\xaa'] and calls[0][2].get('fee') == 1500
        ex.check(ok, 'import-recreates-with-the-same-outputs-inputs-fee')
        ex.check(rt.version_int == version, 'import-keeps-version')
        ex.check(rt.inputs[0].sequence == sequence, 'dict-import-keeps-input-sequence')
    ex.check(rt.locktime == locktime, 'import-keeps-locktime')
    ex.check(rt.block_height == height and rt.txid == 'ab' * 32, 'import-keeps-txid-and-block-data')


def h_create_keeps_wallet_threshold(ex):
    """transaction_create with inputs handed over from another cosigner (Input objects as parsed from raw hex carry
    sigs_required = 1; tuples carry none): every input of the rebuilt transaction requires the wallet's m signatures"""
    import bitcoinlib.wallets as WL
    import bitcoinlib.transactions as T
    from harness import c07
    m = ex.choose('wallet_m', [1, 2, 3])
    carried = ex.choose('threshold_on_the_imported_input', [1, 2, 3])
    form = ex.choose('input_given_as', ['Input object', 'tuple'])
    value = ex.lint('value', 10000, c07.MAXV)
    amount = ex.lint('amount', 1, c07.MAXV)
    fee = ex.lint('fee', 1000, 10 ** 6)
    ex.assume(amount + fee <= value)
    if ex.concrete:
        value, amount, fee = int(value), int(amount), int(fee)          # (replay: same stand-in wallet, real values, no proxies)
    utx = c07.mk_utxos(ex, 1)
    utx[0].value, utx[0].script_type, utx[0].spent = value, 'p2wsh', False
    w = c07._wallet(ex, utx)
    w.multisig, w.multisig_n_required, w.sort_keys = True, m, True
    with shims.unshimmed():
        keys = [WL.HDKey(bytes([2]) + bytes([0x80 + i]) * 32, witness_type='segwit', multisig=True) for i in range(3)]
    w._objects_by_key_id = lambda key_id: (keys, utx[0].key)
    w.get_keys = lambda *a, **k: [c07._ChangeKey(99)]
    import random as _random
    shims.install(WL, Service=c07._FakeService, random=_random.Random(7))
    shims.install(WL.WalletTransaction, signature_hash=lambda self, *a, **k: b'\x00' * 32)
    seen = []
    real_add = _REAL.setdefault('add_input', WL.WalletTransaction.add_input)      # (shims stay installed across paths)

    def spy(self, *a, **k):
        seen.append(k.get('sigs_required'))
        return real_add(self, *a, **k)
    shims.install(WL.WalletTransaction, add_input=spy)
    if form == 'Input object':
        inp = T.Input(prev_txid=bytes([1]) * 32, output_n=0, keys=keys, script_type='p2sh_multisig', sigs_required=carried, value=value,
                      witness_type='segwit', network='bitcoin', sort=True)
    else:
        inp = (bytes([1]) * 32, 0)
    try:
        t = w.transaction_create([(c07.RECIPIENT, amount)], input_arr=[inp], fee=fee, number_of_change_outputs=1)
    except WL.WalletError:
        return
    ex.check(seen == [m], 'rebuilt-input-asks-for-the-wallets-threshold')
    ex.check(len(t.inputs) == 1 and t.inputs[0].sigs_required == m, 'rebuilt-input-requires-m-signatures')


def jobs(tier):
    q = tier == 'quick'
    J = [Job('redeemscript_%d' % n, h_redeemscript, W=40, setup=setup, params=dict(n=n), budget_s=3000) for n in ([1, 2, 3, 4] if q else [1, 2, 3, 4, 5])]
    from harness import c01
    J.append(Job('threshold_kept', h_threshold_kept, W=72, setup=c01.setup_init, budget_s=1500))
    from harness import c07
    J.append(Job('import_forwards_fields', h_import_forwards_fields, W=72, setup=setup_import))
    J.append(Job('create_keeps_wallet_threshold', h_create_keeps_wallet_threshold, W=8, setup=c07.wsetup, budget_s=1500))
    J.append(Job('counting', c02.h_counting, W=40, setup=c02.setup, params=dict(maxn=3 if q else 4), budget_s=3000))
    J.append(Job('placement', c02.h_placement, W=40, setup=c02.setup, params=dict(maxn=3 if q else 4, ncalls=3 if q else 4), budget_s=3000))
    J.append(Job('placement_handoff', c02.h_placement, W=40, setup=c02.setup, params=dict(maxn=3, ncalls=3, handoff=True), budget_s=3000))
    return J
