"""C12 - every key export format imports back to the same key and metadata (WIF and extended keys), and the
Base58Check envelopes of WIF / extended keys are verified (C11, key part).

Real code executed symbolically: keys.get_key_format, Key.__init__ (WIF branch), Key.from_wif, Key.wif,
HDKey.wif / wif_public / wif_private, HDKey.__init__ and HDKey.from_wif (extended-key decoding),
networks.network_by_value / wif_prefix_search, Network.wif_prefix.
The base58 digit layer is an inverse pair of stubs, the checksum hash is uninterpreted, curve operations are dummies
(public fields of imported private keys are not inspected here; see C03/C04)."""
import json
import os
import z3
from symx import core, shims, stubs
from symx.core import SBytes, SInt, SStr, s_and, s_or, s_not
from vtlib.api import Job, kf, REPO

PROPERTY = 'C12'
N = 0xFFFFFFFFFFFFFFFFFFFFFFFFFFFFFFFEBAAEDCE6AF48A03BBFD25E8CD0364141
ASSUMPTIONS = [
    'base58 digit layer (change_base 58<->256/16, base58encode) is an inverse pair of stubs: a base58 string is an opaque value wrapping its decoded bytes; its character length is taken as 51/52 (WIF) and 111 (extended key), the lengths of every such string with the documented version prefixes',
    'double_sha256 is an uninterpreted functional symbol; ec_point and coordinate formatting are dummies (public fields of an imported private key are not part of these obligations)',
    'expected version bytes / extended-key prefixes are read from bitcoinlib/data/networks.json',
]
BOUNDS = {'quick': 'WIF: every decoded byte string version(1)+secret(32)[+01]+checksum(4) with all bytes symbolic; export for every network; extended keys: every depth 0..255, fingerprint, child index 0..2^32-1, chain code, key bytes; every network x {legacy, p2sh-segwit, segwit} x {single, multisig} x {private, public} prefix of networks.json, imported without hints and with the (network, witness type, multisig) of every documented sharer supplied; WIF export also after an earlier wif(prefix=<any byte>) call on the same object',
          'thorough': 'same'}
OUTSIDE = 'hex / bytes / integer formats beyond their use inside these routes; BIP38 encryption / decryption itself (C15; here only that the imported object keeps what decryption returned); the base58 digit arithmetic (C11 outside)'


def _mods():
    import bitcoinlib.keys as K
    import bitcoinlib.encoding as E
    import bitcoinlib.networks as NW
    return K, E, NW


def networks():
    with open(os.path.join(REPO, 'bitcoinlib', 'data', 'networks.json')) as f:
        return json.load(f)


class B58:
    """a base58 string under the inverse-pair abstraction: wraps its decoded bytes"""

    def __init__(self, data):
        self.data = data

    def __len__(self):
        return {37: 51, 38: 52, 82: 111}.get(len(self.data), 2 * len(self.data))

    def __bool__(self):
        return True

    def __getitem__(self, i):
        return '\x00?'           # never equal to any literal prefix the format detection looks for ('6P', '04', ...)

    def split(self, sep=None):
        return [self]

    def __eq__(self, o):
        return o is self

    def __hash__(self):
        return id(self)

    def __str__(self):
        # reached through C-level formatting (repr / log strings): an indexed placeholder keeps the value traceable
        try:
            return core._placeholder(self)
        except Exception:
            return '<base58>'


class _Pt:
    class _C:
        def __mod__(self, m):
            return 0
    x = _C()
    y = _C()


_H = {}


class NullLog:
    def __getattr__(self, n):
        return lambda *a, **k: None


def setup(ex):
    K, E, NW = _mods()
    for m in (K, E, NW):
        shims.install(m, int=shims.IntShim, bytes=shims.BytesShim)
    _H.clear()
    _H['d'] = stubs.HashStub('dsha', 32)
    ex.axiom_sources = [_H['d']]
    real_cb = K.change_base

    def change_base(chars, f, t, min_length=0, output_even=None, output_as_list=None):
        if isinstance(chars, B58) and f == 58:
            if t == 256:
                return chars.data
            if t == 16:
                return SBytes.lift(chars.data).hex()
        if isinstance(chars, _Pt._C):
            return 'cc' * 32
        if (f, t) == (256, 58):
            return B58(chars)
        return real_cb(chars, f, t, min_length, output_even, output_as_list)
    shims.install(K, change_base=change_base, base58encode=lambda b: B58(b), double_sha256=_H['d'], ec_point=lambda m: _Pt(), ord=shims.ord_shim,
                  _logger=NullLog(), isinstance=shims.isinstance_shim)
    shims.install(NW, change_base=change_base, _logger=NullLog())


def _eq(a, b):
    if len(a) != len(b):
        return False
    return a == b


def wif_versions(nets):
    out = {}
    for n, d in nets.items():
        out.setdefault(int(d['prefix_wif'], 16), []).append(n)
    return out


def h_wif_import(ex, route):
    """a WIF string (arbitrary decoded bytes) is accepted only with a correct checksum, a known version byte and a
    secret in [1, n-1]; the imported key has that secret, the compression flag of the 01 suffix and a network that uses
    the version byte; the string is classified as private"""
    K, E, NW = _mods()
    nets = networks()
    H = _H['d'] if not ex.concrete else E.double_sha256
    comp = ex.choose('compressed', [True, False])
    ver = ex.bytes('version', 1)
    secret = ex.bytes('secret', 32)
    chk = ex.bytes('checksum', 4)
    body = ver + secret + (b'\x01' if comp else b'')
    vers = wif_versions(nets)
    known_ver = s_or(*[ver[0] == v for v in vers])
    # version byte: every documented WIF version plus three undocumented representatives (a decoded string that starts
    # with an extended-key prefix is classified as extended key by get_key_format: outside this obligation)
    ex.assume(s_or(known_ver, ver[0] == 0x00, ver[0] == 0x7f, ver[0] == 0xaa))
    if ex.concrete:
        # the checksum hash is uninterpreted in the symbolic run: replay the model's bytes and the same bytes with the
        # real checksum (the obligations are universal over strings)
        for c in [bytes(chk), E.double_sha256(bytes(body))[:4]]:
            _wif_import_obligations(ex, K, E, NW, route, vers, ver, secret, comp, body, c, E.base58encode(bytes(body) + c), E.double_sha256)
        return
    _wif_import_obligations(ex, K, E, NW, route, vers, ver, secret, comp, body, chk, B58(body + chk), H)


def _unresolvable(names):
    """the library picks bitcoin, else testnet, among the networks sharing a prefix; otherwise it refuses (listed)"""
    return len(names) > 1 and 'bitcoin' not in names and 'testnet' not in names


def _wif_import_obligations(ex, K, E, NW, route, vers, ver, secret, comp, body, chk, wif, H):
    sv = shims.IntShim.from_bytes(secret, 'big')
    known_ver = s_or(*[ver[0] == v for v in vers])
    ambiguous = s_or(*[ver[0] == v for v, names in vers.items() if _unresolvable(names)])
    inrange = s_and(sv >= 1, sv <= N - 1)
    chk_ok = _eq(H(body)[:4], chk)
    good = s_and(chk_ok, known_ver, inrange)
    k_range = kf('C04-private-key-range-not-checked', s_and(chk_ok, known_ver, s_not(inrange)))
    k_amb = kf('C12-shared-prefix-import-needs-network-hint', s_and(chk_ok, ambiguous))
    try:
        k = K.Key(wif) if route == 'init' else K.Key.from_wif(wif)
        accepted = True
    except (K.BKeyError, E.EncodingError, NW.NetworkError):
        accepted = False
    if not accepted:
        ex.check(s_not(good), 'wif-rejects-only-invalid-strings', known=k_amb)
        return
    ex.check(good, 'wif-accepts-only-valid-checksum-version-range', known=k_range)
    ex.check(k.secret == sv, 'wif-import-secret')
    ex.check(k.compressed == comp, 'wif-import-compression-flag')
    ex.check(k.is_private is True, 'wif-classified-private')
    ok_net = False
    for v, names in vers.items():
        ok_net = s_or(ok_net, s_and(ver[0] == v, k.network.name in names))
    ex.check(ok_net, 'wif-import-network-uses-version-byte')


def h_wif_export(ex, net):
    """Key.wif(): version byte of the network + 32-byte secret (leading zeros kept) + 01 if compressed + checksum"""
    K, E, NW = _mods()
    nets = networks()
    H = _H['d'] if not ex.concrete else E.double_sha256
    comp = ex.choose('compressed', [True, False])
    secret = ex.bytes('secret', 32)
    ex.assume(s_not(s_and(*[b == 0 for b in secret])))          # zero is not a key (wif() refuses it)
    if ex.concrete:
        k = K.Key(bytes(secret), network=net, compressed=comp)
    else:
        k = K.Key.__new__(K.Key)
        k.network = K.Network(net)
        k.private_byte, k.secret, k.compressed, k.is_private = secret, shims.IntShim.from_bytes(secret, 'big'), comp, True
        k._wif, k._wif_prefix = None, None
    hist = ex.choose('history', ['fresh object', 'after wif(prefix=<any version byte>)'])
    if hist != 'fresh object':
        other = ex.bytes('other_version', 1)
        w0 = k.wif(prefix=other if not ex.concrete else bytes(other))
        body0 = other + secret + (b'\x01' if comp else b'')
        ex.check(_eq(w0.data if isinstance(w0, B58) else _b58dec(w0), body0 + H(body0)[:4]), 'wif-export-explicit-version-layout')
    w = k.wif()
    data = w.data if isinstance(w, B58) else _b58dec(w)
    body = bytes.fromhex(nets[net]['prefix_wif']) + secret + (b'\x01' if comp else b'')
    ex.check(_eq(data, body + H(body)[:4]), 'wif-export-layout')
    # asking again (cached) gives the same string
    w2 = k.wif()
    ex.check(_eq(w2.data if isinstance(w2, B58) else _b58dec(w2), body + H(body)[:4]), 'wif-export-stable')


def _b58dec(s):
    alphabet = '123456789ABCDEFGHJKLMNPQRSTUVWXYZabcdefghijkmnopqrstuvwxyz'
    n = 0
    for ch in s:
        n = n * 58 + alphabet.index(ch)
    pad = len(s) - len(s.lstrip('1'))
    body = n.to_bytes((n.bit_length() + 7) // 8, 'big')
    return b'\x00' * pad + body


def hd_prefixes(nets):
    """(network, witness_type, multisig, is_private) -> prefix bytes, from networks.json"""
    out = {}
    for n, d in nets.items():
        for pf in d['prefixes_wif']:
            out[(n, pf[4], pf[3], pf[2] == 'private')] = bytes.fromhex(pf[0])
    return out


def h_hd_export(ex, net):
    """HDKey.wif(): BIP32 serialization prefix | depth | parent fingerprint | child number | chain code | key data |
    checksum with the documented prefix for (network, witness type, multisig, private/public)"""
    K, E, NW = _mods()
    nets = networks()
    H = _H['d'] if not ex.concrete else E.double_sha256
    pfx = hd_prefixes(nets)
    wt = ex.choose('witness_type', ['legacy', 'p2sh-segwit', 'segwit'])
    ms = ex.choose('multisig', [False, True])
    private_obj = ex.choose('object', ['private', 'public'])
    want_private = ex.choose('export', ['private', 'public']) if private_obj == 'private' else 'public'
    if (net, wt, ms, want_private == 'private') not in pfx:
        ex.cut('no documented prefix for this combination')
    depth = ex.int('depth', 0, 255)
    fp = ex.bytes('fingerprint', 4)
    idx = ex.int('child_index', 0, 2 ** 32 - 1)
    chain = ex.bytes('chain', 32)
    sec = ex.bytes('secret', 32)
    pub = b'\x02' + ex.bytes('pub_x', 32)
    k = K.HDKey.__new__(K.HDKey)
    k.network = K.Network(net)
    k.witness_type, k.multisig, k.is_private = wt, ms, private_obj == 'private'
    k.private_byte = sec if k.is_private else None
    k.public_byte = k.public_compressed_byte = pub
    k.depth, k.parent_fingerprint, k.child_index, k.chain = depth, fp, idx, chain
    k.compressed = True
    if want_private == 'private':
        w = ex.choose('method', ['wif(is_private=True)', 'wif_private'])
        s = k.wif(is_private=True) if w == 'wif(is_private=True)' else k.wif_private()
        keydata = b'\x00' + sec
    else:
        w = ex.choose('method', ['wif', 'wif_public'])
        s = k.wif() if (w == 'wif' and private_obj == 'public') else k.wif_public()
        keydata = pub
    raw = pfx[(net, wt, ms, want_private == 'private')] + depth.to_bytes(1, 'big') + fp + idx.to_bytes(4, 'big') + chain + keydata
    data = s.data if isinstance(s, B58) else _b58dec(s)
    ex.check(_eq(data, raw + H(raw)[:4]), 'hdkey-export-bip32-serialization')
    ex.check(k.child_index == idx, 'export-does-not-change-the-key')


def h_hd_import(ex, route):
    """an extended-key string (arbitrary 82 decoded bytes with a documented prefix) is accepted only with a correct
    checksum; the imported key carries exactly the serialized depth, fingerprint, child number, chain code and key,
    is private iff the prefix is a private prefix, and its network / witness type / multisig are those of a
    documented sharer of the prefix"""
    K, E, NW = _mods()
    nets = networks()
    H = _H['d'] if not ex.concrete else E.double_sha256
    pfx = hd_prefixes(nets)
    prefixes = sorted(set(pfx.values()))
    prefix = ex.choose('prefix', prefixes)
    is_priv = any(v == prefix and k[3] for k, v in pfx.items())
    depth = ex.bytes('depth', 1)
    fp = ex.bytes('fingerprint', 4)
    idx = ex.bytes('child_index', 4)
    chain = ex.bytes('chain', 32)
    if is_priv:
        sec = ex.bytes('secret', 32)
        sv = shims.IntShim.from_bytes(sec, 'big')
        ex.assume(s_and(sv >= 1, sv <= N - 1))
        keydata = b'\x00' + sec
    else:
        keydata = ex.bytes('pub_prefix', 1) + ex.bytes('pub_x', 32)
        ex.assume(s_or(keydata[0] == 2, keydata[0] == 3))
    chk = ex.bytes('checksum', 4)
    raw = prefix + depth + fp + idx + chain + keydata
    sharers = [kk for kk, v in pfx.items() if v == prefix]
    names = sorted(set(kk[0] for kk in sharers))
    if ex.concrete:
        for c in [bytes(chk), E.double_sha256(bytes(raw))[:4]]:
            _hd_import_obligations(ex, K, E, NW, route, raw, c, E.base58encode(bytes(raw) + c), E.double_sha256, is_priv, depth, fp, idx, chain,
                                   keydata, sharers, names)
        return
    _hd_import_obligations(ex, K, E, NW, route, raw, chk, B58(raw + chk), H, is_priv, depth, fp, idx, chain, keydata, sharers, names)


def _hd_import_obligations(ex, K, E, NW, route, raw, chk, s, H, is_priv, depth, fp, idx, chain, keydata, sharers, names):
    good = _eq(H(raw)[:4], chk)
    k_amb = kf('C12-shared-prefix-import-needs-network-hint', s_and(good, _unresolvable(names)))
    try:
        k = K.HDKey(s) if route == 'init' else K.HDKey.from_wif(s)
        accepted = True
    except (K.BKeyError, E.EncodingError, NW.NetworkError):
        accepted = False
    if not accepted:
        ex.check(s_not(good), 'hdkey-import-rejects-only-bad-checksum', known=k_amb)
        return
    ex.check(good, 'hdkey-import-verifies-checksum')
    ex.check(k.is_private == is_priv, 'hdkey-import-private-public-classification')
    ex.check(s_and(k.depth == depth[0], _eq(k.parent_fingerprint, fp), k.child_index == shims.IntShim.from_bytes(idx, 'big'),
                   _eq(k.chain, chain)), 'hdkey-import-metadata')
    if is_priv:
        ex.check(k.secret == shims.IntShim.from_bytes(keydata[1:], 'big'), 'hdkey-import-secret')
    else:
        ex.check(_eq(k.public_byte, keydata), 'hdkey-import-public-key')
    ex.check(any(k.network.name == kk[0] for kk in sharers), 'hdkey-import-network-is-a-sharer-of-the-prefix')
    ex.check(any(k.network.name == kk[0] and k.witness_type == kk[1] for kk in sharers), 'hdkey-import-witness-type')


def h_hd_import_hints(ex, route):
    """importing an extended key while SUPPLYING the metadata its prefix does not pin down - network, witness type,
    multisig flag of any documented sharer of the prefix - yields a key with exactly that metadata"""
    K, E, NW = _mods()
    nets = networks()
    H = _H['d'] if not ex.concrete else E.double_sha256
    pfx = hd_prefixes(nets)
    prefix = ex.choose('prefix', sorted(set(pfx.values())))
    sharers = sorted([kk for kk, v in pfx.items() if v == prefix], key=repr)
    nw, wt, ms, is_priv = ex.choose('supplied', sharers)
    if ms is None or wt is None:
        ex.cut('prefix row without multisig / witness type')
    depth, fp, idx, chain = ex.bytes('depth', 1), ex.bytes('fingerprint', 4), ex.bytes('child_index', 4), ex.bytes('chain', 32)
    if is_priv:
        sec = ex.bytes('secret', 32)
        sv = shims.IntShim.from_bytes(sec, 'big')
        ex.assume(s_and(sv >= 1, sv <= N - 1))
        keydata = b'\x00' + sec
    else:
        keydata = ex.bytes('pub_prefix', 1) + ex.bytes('pub_x', 32)
        ex.assume(s_or(keydata[0] == 2, keydata[0] == 3))
    raw = prefix + depth + fp + idx + chain + keydata
    s = B58(raw + H(raw)[:4]) if not ex.concrete else E.base58encode(bytes(raw) + H(bytes(raw))[:4])
    try:
        if route == 'init':
            k = K.HDKey(s, network=nw, witness_type=wt, multisig=ms)
        else:
            k = K.HDKey.from_wif(s, network=nw, multisig=ms)
    except (K.BKeyError, E.EncodingError, NW.NetworkError):
        ex.check(False, 'hdkey-import-with-consistent-hints-accepted')
        return
    ex.check(k.network.name == nw, 'hdkey-import-keeps-supplied-network')
    ex.check(k.multisig == ms, 'hdkey-import-keeps-supplied-multisig-flag')
    if route == 'init':
        ex.check(k.witness_type == wt, 'hdkey-import-keeps-supplied-witness-type')
    else:
        # from_wif takes no witness type: it must pick one documented for (prefix, network, multisig)
        ex.check(any(kk[0] == nw and kk[2] == ms and kk[1] == k.witness_type for kk in sharers), 'hdkey-import-witness-type-documented-for-hints')
    ex.check(k.is_private == is_priv, 'hdkey-import-private-public-classification')
    ex.check(s_and(k.depth == depth[0], _eq(k.parent_fingerprint, fp), k.child_index == shims.IntShim.from_bytes(idx, 'big'),
                   _eq(k.chain, chain)), 'hdkey-import-metadata')


def jobs(tier):
    J = []
    nets = list(networks())
    for route in ('init', 'from_wif'):
        J.append(Job('wif_import_%s' % route, h_wif_import, W=272, setup=setup, params=dict(route=route), budget_s=3000))
        J.append(Job('hd_import_%s' % route, h_hd_import, W=272, setup=setup, params=dict(route=route), budget_s=3000))
        J.append(Job('hd_import_hints_%s' % route, h_hd_import_hints, W=272, setup=setup, params=dict(route=route), budget_s=3000))
    for net in nets:
        J.append(Job('wif_export_%s' % net, h_wif_export, W=272, setup=setup, params=dict(net=net)))
        J.append(Job('hd_export_%s' % net, h_hd_export, W=272, setup=setup, params=dict(net=net), budget_s=1500))
    from harness import c15            # the BIP38 import route (decryption itself: C15)
    J += [j for j in c15.jobs(tier) if j.name.startswith('import_keeps_decrypted_key')]
    return J
