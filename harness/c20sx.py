"""C20, cache part: answers served from the cache equal what was stored.

Real code executed symbolically (symx): services.Cache._parse_db_transaction (rebuilding a Transaction from cache rows)
and services.Cache.gettransactions with after_txid (which cached transactions of an address are served).  The cache
database is the symx.sqlmini stand-in: the filter / order_by expressions the library builds are evaluated over rows with
symbolic block heights, block positions, amounts and sequence numbers."""
import enum
from symx import core, shims, sqlmini
from symx.core import s_and, s_or, s_not
from vtlib.api import Job
from harness import c06

MAXV = 21 * 10 ** 14
ADDR = 'bc1qw508d6qejxtdg4y5r3zarvary0c5xw7kv8f3t4'
LOCK = bytes.fromhex('0014751e76e8199196d454941c45d1b3a323f1433bd6')
sqlmini.NAV['cache_transactions'] = {'cache_transactions': lambda r: r, 'cache_transactions_node': lambda r: r.node}


class _WT(enum.Enum):
    legacy = 'legacy'
    segwit = 'segwit'


def setup(ex):
    c06.setup(ex)
    import bitcoinlib.services.services as SV
    shims.install(SV, _logger=c06.NullLog())
    import bitcoinlib.transactions as T
    import bitcoinlib.keys as K
    shims.install(T, Address=K.Address)          # (addresses are concrete here: the real class instead of C06's stand-in)

    class _IntFloat:
        # float(<symbolic int below 2**53>): exactly that integer; the analysed code only asks is_integer()
        def __init__(self, v):
            self.v = v

        def is_integer(self):
            return True

    def _float(x=0.0):
        if isinstance(x, core.SInt):
            if x.hi >= 2 ** 53 or x.lo <= -2 ** 53:
                raise core.EngineLimit("float() of a symbolic int beyond 2**53")
            return _IntFloat(x)
        return float(x)
    shims.install(T, float=_float)


def h_cache_parse(ex):
    """Cache._parse_db_transaction: every stored field of a cached transaction (version, locktime, and per input the
    outpoint, sequence number and value, per output the value and position) comes back unchanged"""
    import bitcoinlib.services.services as SV
    version = ex.int('version', 0, 2 ** 32 - 1)
    locktime = ex.int('locktime', 0, 2 ** 32 - 1)
    seq = ex.int('sequence', 0, 2 ** 32 - 1)
    ref_n = ex.int('prev_output_n', 0, 2 ** 32 - 1)
    vin = ex.int('input_value', 0, MAXV)
    vout = ex.int('output_value', 0, MAXV)
    ex.assume(vout <= vin)
    prev = ex.bytes('prev_txid', 32) if not ex.concrete else bytes(ex.bytes('prev_txid', 32))
    ex.assume(prev[0] != 0)                      # (not the coinbase marker)
    if ex.concrete and prev[0] == 0:
        raise core.PathAbort()
    nodes = [sqlmini.Row(is_input=True, ref_txid=prev, ref_index_n=ref_n, script=b'', address=ADDR, sequence=seq, value=vin, index_n=0,
                         witnesses=b'', spent=None),
             sqlmini.Row(is_input=False, ref_txid=None, ref_index_n=None, script=LOCK, address=ADDR, sequence=None, value=vout, index_n=0,
                         witnesses=None, spent=False)]
    if ex.concrete:
        version, locktime, seq, ref_n, vin, vout = int(version), int(locktime), int(seq), int(ref_n), int(vin), int(vout)
        nodes[0].__dict__.update(ref_index_n=ref_n, sequence=seq, value=vin)
        nodes[1].__dict__.update(value=vout)
    db_tx = sqlmini.Row(locktime=locktime, version=version, network_name='bitcoin', fee=vin - vout, txid=b'\x77' * 32, date=None, confirmations=3,
                        block_height=100, witness_type=_WT.segwit, index=1, nodes=nodes)
    t = SV.Cache._parse_db_transaction(db_tx)
    ex.check(len(t.inputs) == 1 and len(t.outputs) == 1, 'cached-transaction-shape')
    i, o = t.inputs[0], t.outputs[0]
    ex.check(i.sequence == seq, 'cached-input-sequence-unchanged')
    ex.check(i.value == vin, 'cached-input-value-unchanged')
    ex.check(c06._eqb(i.prev_txid, prev) and i.output_n_int == ref_n, 'cached-input-outpoint-unchanged')
    ex.check(o.value == vout, 'cached-output-value-unchanged')
    ex.check(t.locktime == locktime, 'cached-locktime-unchanged')
    ex.check(t.version_int == version, 'cached-version-unchanged')
    ex.check(t.fee == vin - vout, 'cached-fee-is-inputs-minus-outputs')


class _Net:
    name = 'bitcoin'


def h_cache_after_txid(ex, n):
    """Cache.gettransactions(address, after_txid=X) over every placement of n cached transactions of the address
    (block height and position in the block symbolic): exactly the transactions that come after X in (block, position)
    order - and are not above the address's last cached block - are served, in that order"""
    import bitcoinlib.services.services as SV
    rows = []
    node = sqlmini.Row(address=ADDR)
    for k in range(n):
        rows.append(sqlmini.Row(_tag='tx%d' % k, txid=bytes([k + 1]) * 32, network_name='bitcoin', node=node,
                                block_height=ex.int('height%d' % k, 1, 10 ** 6), index=ex.int('position%d' % k, 0, 5000)))
    # (block, position) pairs are distinct: two transactions do not share a slot
    for a in range(n):
        for b in range(a + 1, n):
            ex.assume(s_or(rows[a].block_height != rows[b].block_height, rows[a].index != rows[b].index))
    last_block = ex.int('last_block', 1, 10 ** 6)
    ex.assume(s_and(*[r.block_height <= last_block for r in rows]))          # the address record is up to date with its transactions
    which = ex.choose('after', list(range(n)))
    addr_row = sqlmini.Row(address=ADDR, network_name='bitcoin', last_block=last_block)
    if ex.concrete:
        return _after_txid_concrete(ex, n, which, int(last_block))
    c = SV.Cache.__new__(SV.Cache)
    c.session = sqlmini.Session({'cache_transactions': rows, 'cache_address': [addr_row]})
    c.network = _Net()
    c._parse_db_transaction = lambda d: d
    c.blockcount = lambda *a, **k: 0
    shims.install(SV, SERVICE_CACHING_ENABLED=True)

    class _D:
        def replace(self, **k):
            return self
    for r in rows:
        r.date, r.confirmations = _D(), 0
    got = c.gettransactions(ADDR, after_txid=rows[which].txid)
    x = rows[which]
    for r in rows:
        later = s_or(r.block_height > x.block_height, s_and(r.block_height == x.block_height, r.index > x.index))
        ex.check(later == (r in got), 'served-iff-after-the-given-transaction')
    for a, b in zip(got, got[1:]):
        ex.check(s_or(a.block_height < b.block_height, s_and(a.block_height == b.block_height, a.index < b.index)), 'served-in-block-order')


def _after_txid_concrete(ex, n, which, last_block):
    """replay: a real sqlite cache filled through Cache.store_transaction / store_address with the recorded placement"""
    import tempfile, shutil
    from datetime import datetime, timezone
    import bitcoinlib.services.services as SV
    from bitcoinlib.transactions import Transaction, Input, Output
    from bitcoinlib.networks import Network
    d = tempfile.mkdtemp(prefix='c20c')
    try:
        c = SV.Cache(Network('bitcoin'), db_uri='sqlite:///%s/cache.db' % d)
        place = [(int(ex.int('height%d' % k, 1, 10 ** 6)), int(ex.int('position%d' % k, 0, 5000))) for k in range(n)]
        txids = []
        for k, (h, pos) in enumerate(place):
            t = Transaction(inputs=[Input(prev_txid=bytes([0x40 + k]) * 32, output_n=0, value=5000, address=ADDR, witness_type='segwit')],
                            outputs=[Output(4000, address=ADDR)], network='bitcoin', block_height=h, date=datetime(2020, 1, 1, tzinfo=timezone.utc),
                            confirmations=1, status='confirmed', witness_type='segwit')
            t.txid = t.signature_hash()[::-1].hex() if not t.txid else t.txid
            t.txid = (bytes([k + 1]) * 32).hex()
            c.store_transaction(t, index=pos)
            txids.append(bytes([k + 1]) * 32)
        c.store_address(ADDR, last_block=last_block, txs_complete=True)
        c.store_blockcount(last_block)
        got = c.gettransactions(ADDR, after_txid=txids[which])
        got_ids = [bytes.fromhex(t.txid) for t in got]
        x = place[which]
        for k in range(n):
            ex.check((place[k] > x) == (txids[k] in got_ids), 'served-iff-after-the-given-transaction')
        order = [place[txids.index(i)] for i in got_ids]
        ex.check(order == sorted(order), 'served-in-block-order')
    finally:
        shutil.rmtree(d, ignore_errors=True)


def jobs(tier):
    return [Job('sx_cache_parse', h_cache_parse, W=72, setup=setup, budget_s=1500),
            Job('sx_cache_after_txid_2', h_cache_after_txid, W=40, setup=setup, params=dict(n=2), budget_s=1500),
            Job('sx_cache_after_txid_3', h_cache_after_txid, W=40, setup=setup, params=dict(n=3), budget_s=1500)]
