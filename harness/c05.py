"""C05 - address <-> locking script mapping is standard and mutually inverse.

Real code executed symbolically: Output.__init__ (address / Address object / HD key / hash / script routes, network
check), Output.address / address_obj, keys.deserialize_address, keys.Address.__init__, Script(script_types=[...])
template instantiation + serialize, Script.parse_bytes + _get_script_types + public_hash extraction.
The text codecs (base58check / bech32, checked by C11) are an inverse pair of stubs: an address is an opaque value
carrying (encoding, version prefix or hrp, witness version, payload)."""
import json
import os
import z3
from symx import core, shims, stubs
from symx.core import SBytes, SInt, s_and, s_or, s_not
from vtlib.api import Job, kf, REPO

PROPERTY = 'C05'
ASSUMPTIONS = [
    'base58check and bech32 codecs are an inverse pair of stubs (C11 checks the real ones): an address string is an opaque value (encoding, prefix/hrp, witness version, payload) with a correct checksum',
    'payload bytes are fully symbolic except that the first byte is >= 0x80 (a payload made only of ASCII hex digits would be hex-decoded by to_bytes: listed under C06/C11)',
    'expected prefixes / hrps per network are read from bitcoinlib/data/networks.json (the documented network definitions)',
]
BOUNDS = {'quick': 'all 20/32-byte payloads; P2PKH, P2SH, P2WPKH, P2WSH, P2TR and witness versions 2..16 (32-byte programs); every network of networks.json as transaction network; addresses of every network (cross-network refusal); routes: address string (alone or with consistent encoding / public_hash / script_type arguments), Address object, HD-key-like object (also after an earlier address() call for another view of the key), Transaction.add_output on segwit- and legacy-typed transactions, raw script',
          'thorough': 'same'}
OUTSIDE = 'keys -> hash (C04); non-standard scripts; the codecs themselves (C11); payloads consisting only of ASCII hex digits'


def _mods():
    import bitcoinlib.transactions as T
    import bitcoinlib.keys as K
    import bitcoinlib.encoding as E
    import bitcoinlib.scripts as S
    return T, K, E, S


def networks():
    with open(os.path.join(REPO, 'bitcoinlib', 'data', 'networks.json')) as f:
        return json.load(f)


class OpaqueAddr:
    """an address string under the inverse-pair abstraction"""

    def __init__(self, encoding, prefix, witver, payload):
        self.encoding, self.prefix, self.witver, self.payload = encoding, prefix, witver, payload

    def __bool__(self):
        return True

    def rfind(self, ch):
        return len(self.prefix) if self.encoding == 'bech32' else -1

    def __getitem__(self, sl):
        if isinstance(sl, slice) and sl.start is None and sl.stop == len(self.prefix) and self.encoding == 'bech32':
            return self.prefix
        raise core.EngineLimit("slicing an opaque address")

    def __eq__(self, o):
        return o is self

    def __hash__(self):
        return id(self)

    def __str__(self):
        return "<address>"


_H = {}


class NullLog:
    def __getattr__(self, n):
        return lambda *a, **k: None


def setup(ex):
    T, K, E, S = _mods()
    for m in (T, K, E, S):
        shims.install(m, int=shims.IntShim, bytes=shims.BytesShim)
    shims.install(S, BytesIO=shims.SBytesIO, _logger=NullLog())
    _H.clear()
    _H['d'] = stubs.HashStub('dsha', 32)
    ex.axiom_sources = [_H['d']]

    def change_base(chars, f, t, min_length=0, **k):
        if isinstance(chars, OpaqueAddr) and (f, t) == (58, 256):
            if chars.encoding != 'base58':
                raise E.EncodingError("not base58")
            body = chars.prefix + chars.payload
            return body + _H['d'](body)[:4]
        return E_change_base(chars, f, t, min_length, **k)
    E_change_base = K.change_base

    def bech_dec(a, prefix=None, include_witver=False, as_hex=False):
        if not isinstance(a, OpaqueAddr) or a.encoding != 'bech32':
            raise E.EncodingError("not bech32")
        return bytes([a.witver + 0x50 if a.witver else 0, len(a.payload)]) + a.payload

    def enc(pubkeyhash, prefix=None, encoding='base58', witver=0):
        return OpaqueAddr(encoding, prefix, witver, pubkeyhash)
    shims.install(K, change_base=change_base, double_sha256=_H['d'], addr_bech32_to_pubkeyhash=bech_dec,
                  addr_bech32_checksum=lambda a: 1, pubkeyhash_to_addr=enc, _logger=NullLog())
    shims.install(T, _logger=NullLog(), float=shims.float_of_int_shim)


TEMPLATES = {
    'p2pkh': lambda h: b'\x76\xa9\x14' + h + b'\x88\xac',
    'p2sh': lambda h: b'\xa9\x14' + h + b'\x87',
    'p2wpkh': lambda h: b'\x00\x14' + h,
    'p2wsh': lambda h: b'\x00\x20' + h,
}


def template(kind, h, witver=1):
    if kind in TEMPLATES:
        return TEMPLATES[kind](h)
    return bytes([0x50 + witver, len(h)]) + h          # p2tr and higher witness versions: OP_n <program>


KINDS = {  # kind: (encoding, payload length, witver)
    'p2pkh': ('base58', 20), 'p2sh': ('base58', 20), 'p2wpkh': ('bech32', 20), 'p2wsh': ('bech32', 32), 'p2tr': ('bech32', 32),
}


def sym_payload(ex, n):
    h = ex.bytes('payload', n)
    ex.assume(h[0] >= 0x80)
    return h


def addr_for(nets, net, kind, payload, witver, concrete=False):
    d = nets[net]
    if concrete:
        T, K, E, S = _mods()
        if kind == 'p2pkh':
            return E.pubkeyhash_to_addr_base58(bytes(payload), bytes.fromhex(d['prefix_address']))
        if kind == 'p2sh':
            return E.pubkeyhash_to_addr_base58(bytes(payload), bytes.fromhex(d['prefix_address_p2sh']))
        return _ref_bech32(d['prefix_bech32'], witver, bytes(payload))
    if kind == 'p2pkh':
        return OpaqueAddr('base58', bytes.fromhex(d['prefix_address']), 0, payload)
    if kind == 'p2sh':
        return OpaqueAddr('base58', bytes.fromhex(d['prefix_address_p2sh']), 0, payload)
    return OpaqueAddr('bech32', d['prefix_bech32'], witver, payload)


def _ref_bech32(hrp, witver, prog):
    from ref import bech32 as rb
    rb.POLYMOD[0] = None
    return ''.join(chr(c) for c in rb.encode_segwit(hrp, witver, list(prog)))


def addr_fields(a):
    """(encoding, prefix/hrp, witver, payload) of an address: opaque value (symbolic runs) or real string (replay; decoded
    with the reference bech32 decoder / an independent base58check decoder)"""
    if isinstance(a, OpaqueAddr):
        return a.encoding, a.prefix, a.witver, a.payload
    if not isinstance(a, str) or not a:
        return None
    from ref import bech32 as rb
    rb.POLYMOD[0] = None
    d = rb.decode_segwit(a)
    if d is not None:
        return 'bech32', ''.join(chr(c) for c in d[0]), d[1], bytes(d[2])
    alphabet = '123456789ABCDEFGHJKLMNPQRSTUVWXYZabcdefghijkmnopqrstuvwxyz'
    n = 0
    for ch in a:
        n = n * 58 + alphabet.index(ch)
    raw = n.to_bytes(25, 'big')
    return 'base58', raw[:1], 0, raw[1:21]


def _eq(a, b):
    if len(a) != len(b):
        return False
    return a == b


def h_forward(ex, net, route):
    """an output built from an address (string / Address object / HD-key-like object) of the transaction's network
    carries exactly the standard locking script of the address's payload"""
    T, K, E, S = _mods()
    nets = networks()
    kind = ex.choose('kind', list(KINDS) if route != 'hdkey' else ['p2pkh', 'p2sh', 'p2wpkh'])
    witver = ex.choose('witver', [1, 2, 16]) if kind == 'p2tr' else 0
    payload = sym_payload(ex, KINDS[kind][1])
    a = addr_for(nets, net, kind, payload, witver, ex.concrete)
    value = ex.int('value', 0, 21 * 10 ** 14)
    if ex.concrete and route == 'address_obj':
        ao = K.Address(hashed_data=bytes(payload), script_type=kind, encoding=KINDS[kind][0], network=net, witver=witver)
        o = T.Output(value, address=ao, network=net)
        ex.check(_eq(o.lock_script, template(kind, payload, witver)), 'address-to-standard-locking-script')
        return
    if ex.concrete and route == 'hdkey':
        # replay with a real HD key: the expected hash is computed independently with hashlib
        import hashlib
        wt = {'p2pkh': 'legacy', 'p2sh': 'p2sh-segwit', 'p2wpkh': 'segwit'}[kind]
        hk = K.HDKey(bytes(range(1, 33)), witness_type=wt, network=net)
        h160 = hashlib.new('ripemd160', hashlib.sha256(hk.public_byte).digest()).digest()
        exp = h160 if kind != 'p2sh' else hashlib.new('ripemd160', hashlib.sha256(b'\x00\x14' + h160).digest()).digest()
        if ex.choose('earlier_call_on_key', ['none', 'address(<other encoding / script type>)']) != 'none':
            other_kind = {'p2pkh': 'p2wpkh', 'p2sh': 'p2wpkh', 'p2wpkh': 'p2pkh'}[kind]
            hk.address(encoding=KINDS[other_kind][0], script_type=other_kind)          # an earlier, other view of the key
        o = T.Output(value, address=hk, network=net)
        ex.check(_eq(o.lock_script, template(kind, exp, 0)), 'address-to-standard-locking-script')
        ex.check(o.address == addr_for(nets, net, kind, exp, 0, True), 'output-reports-the-address-it-pays-to')
        return
    if route == 'string':
        # the caller may also pass what it already knows about the address (consistent with it)
        extra = ex.choose('also_given', ['nothing', 'encoding', 'public_hash', 'public_hash+encoding', 'public_hash+script_type'])
        kw = {}
        if 'encoding' in extra:
            kw['encoding'] = KINDS[kind][0]
        if 'public_hash' in extra:
            kw['public_hash'] = payload if not ex.concrete else bytes(payload)
        if 'script_type' in extra:
            kw['script_type'] = kind
        o = T.Output(value, address=a, network=net, **kw)
    elif route == 'address_obj':
        ao = K.Address.__new__(K.Address)
        ao.address, ao.encoding, ao.network = a, KINDS[kind][0], K.Network(net)
        ao.script_type, ao.hash_bytes, ao.witness_type, ao.witver = kind, payload, None, witver
        o = T.Output(value, address=ao, network=net)
    else:
        # HD-key-like object: for p2sh (= p2sh-segwit keys) the address commits to the hash of the redeem script,
        # which differs from the key's own hash160
        hk = K.HDKey.__new__(K.HDKey)
        ao = K.Address.__new__(K.Address)
        ao.address, ao.encoding, ao.network = a, KINDS[kind][0], K.Network(net)
        ao.script_type, ao.hash_bytes, ao.witness_type, ao.witver = kind, payload, {'p2pkh': 'legacy', 'p2sh': 'p2sh-segwit', 'p2wpkh': 'segwit'}[kind], 0
        # the key object answers address() / address_obj like keys.HDKey does: address_obj is whatever the LAST address()
        # call built.  An earlier call may have asked for another view of the key (call histories)
        other_kind = {'p2pkh': 'p2wpkh', 'p2sh': 'p2wpkh', 'p2wpkh': 'p2pkh'}[kind]
        stale = K.Address.__new__(K.Address)
        keyhash = payload if kind != 'p2sh' else ex.bytes('key_hash160', 20)          # (p2pkh and p2wpkh views both carry the key's hash160)
        stale.address = addr_for(nets, net, other_kind, keyhash, 0, ex.concrete)
        stale.encoding, stale.network, stale.script_type, stale.hash_bytes = KINDS[other_kind][0], K.Network(net), other_kind, keyhash
        stale.witness_type, stale.witver = {'p2pkh': 'legacy', 'p2wpkh': 'segwit'}[other_kind], 0
        earlier = ex.choose('earlier_call_on_key', ['none', 'address(<other encoding / script type>)'])
        hk._address_obj = stale if earlier != 'none' else None

        def _address(*x, **y):
            hk._address_obj = ao          # (Key.address() stores the object it builds)
            return a
        hk.address = _address
        hk.public_byte = b'\x02' + ex.bytes('pubkey_x', 32)
        # for P2PKH / P2WPKH the address payload IS the key's hash160; only the P2SH-segwit address commits to another hash
        hk._hash160 = keyhash
        hk.compressed = True
        hk.witness_type = ao.witness_type
        hk.multisig = False
        o = T.Output(value, address=hk, network=net)
    want = template(kind, payload, witver)
    ex.check(_eq(o.lock_script, want), 'address-to-standard-locking-script')
    ex.check(o.value == value, 'value-kept')
    if route == 'hdkey':
        ex.check(o.address is a, 'output-reports-the-address-it-pays-to')


def h_backward(ex, net):
    """a standard locking script is reported with exactly the corresponding address (encoding, prefix / hrp of the
    transaction's network, witness version, payload) and script type; feeding that address back gives the same script"""
    T, K, E, S = _mods()
    nets = networks()
    kind = ex.choose('kind', list(KINDS) + ['witness_vN'])
    witver = 0
    if kind in ('p2tr', 'witness_vN'):
        witver = ex.choose('witver', [1] if kind == 'p2tr' else [2, 15, 16])
    payload = sym_payload(ex, 32 if kind == 'witness_vN' else KINDS[kind][1])
    script = template(kind, payload, witver)
    value = ex.int('value', 0, 21 * 10 ** 14)
    via = ex.choose('built_through', ['Output()', 'Transaction(witness_type=segwit).add_output', 'Transaction(witness_type=legacy).add_output'])
    if via == 'Output()':
        o = T.Output(value, lock_script=script, network=net)
    else:
        t = T.Transaction(network=net, witness_type='segwit' if 'segwit' in via else 'legacy')
        t.add_output(value, lock_script=script if not ex.concrete else bytes(script))
        o = t.outputs[0]
    a = o.address
    d = nets[net]
    ex.check(_eq(o.lock_script, script), 'script-kept')
    f = addr_fields(a)
    if f is None:
        ex.check(False, 'standard-script-has-address')
        return
    enc_, pre_, wv_, pay_ = f
    if kind in ('p2pkh', 'p2sh'):
        wantp = bytes.fromhex(d['prefix_address'] if kind == 'p2pkh' else d['prefix_address_p2sh'])
        ex.check(enc_ == 'base58' and pre_ == wantp, 'address-encoding-and-version')
    else:
        ex.check(enc_ == 'bech32' and pre_ == d['prefix_bech32'], 'address-encoding-and-hrp')
        ex.check(wv_ == witver, 'address-witness-version')
    ex.check(_eq(pay_, payload), 'address-payload-is-script-hash')
    want_type = kind if kind != 'witness_vN' else 'p2tr'
    ex.check(o.script_type == want_type, 'script-type')
    # inverse direction
    o2 = T.Output(value, address=a, network=net)
    ex.check(_eq(o2.lock_script, script), 'address-of-script-gives-script-back')


def h_cross_network(ex, net):
    """an address of another network is refused unless that network documents the very same prefix / hrp"""
    T, K, E, S = _mods()
    nets = networks()
    other = ex.choose('address_network', [n for n in nets])
    kind = ex.choose('kind', ['p2pkh', 'p2sh', 'p2wpkh', 'p2wsh', 'p2tr'])
    payload = sym_payload(ex, KINDS[kind][1])
    a = addr_for(nets, other, kind, payload, 1 if kind == 'p2tr' else 0, ex.concrete)
    field = {'p2pkh': 'prefix_address', 'p2sh': 'prefix_address_p2sh'}.get(kind, 'prefix_bech32')
    same = nets[other][field] == nets[net][field]
    try:
        o = T.Output(ex.int('value', 0, 21 * 10 ** 14), address=a, network=net)
        accepted = True
    except (T.TransactionError, K.BKeyError, E.EncodingError):
        accepted = False
    if same:
        ex.check(accepted, 'same-prefix-address-accepted')
    else:
        ex.check(not accepted, 'foreign-network-address-refused')


def jobs(tier):
    J = []
    nets = list(networks())
    for net in nets:
        for route in ('string', 'address_obj', 'hdkey'):
            if route != 'string' and net not in ('bitcoin', 'litecoin', 'testnet'):
                continue
            J.append(Job('forward_%s_%s' % (route, net), h_forward, W=72, setup=setup, params=dict(net=net, route=route), budget_s=1500))
        J.append(Job('backward_%s' % net, h_backward, W=72, setup=setup, params=dict(net=net), budget_s=1500))
        J.append(Job('cross_network_%s' % net, h_cross_network, W=72, setup=setup, params=dict(net=net), budget_s=1500))
    return J
