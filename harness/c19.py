"""C19 - script evaluation agrees with Bitcoin consensus for the implemented opcodes.

Real code executed symbolically: every scripts.Stack.op_* method, Script.evaluate's dispatch loop,
encode_num/decode_num.  Oracle: /verif/ref/interp.py (transcribed from Bitcoin Core EvalScript).
Listed findings are *deviation models*: the obligation is  lib == consensus  OR  lib == consensus with the listed
deviation switched on; anything else is a violation."""
import z3
from symx import core, shims, stubs
from symx.core import SBytes, SInt, SBool, s_and, s_or, s_not, s_ite
from vtlib.api import Job, kf, kf_listed
from ref import wire, interp

PROPERTY = 'C19'
ASSUMPTIONS = [
    'hash opcodes: RIPEMD160/SHA1/SHA256 are uninterpreted injective symbols shared by library and reference (arguments are compared, not digests)',
    'signature opcodes (CHECKSIG family): Signature.parse_bytes/verify are replaced by a token parser and an arbitrary signature-validity relation V[sig][key] shared with the reference',
    'an exception raised by an op method counts as script failure, as in Script.evaluate\'s dispatch loop',
    'z3 bit-vector semantics; proxy/shim layer validated by witness replay on every path of the non-hash opcodes',
]
BOUNDS = {
    'quick': 'CHECKLOCKTIMEVERIFY / CHECKSEQUENCEVERIFY: every top item of 0..6 bytes, every 32-bit lock time, sequence and version (BIP65 / BIP112 written out in the harness); per opcode: every stack of depth 0..(arity+1) whose operand items have every length in 0..5 bytes (arithmetic) / 0..2 bytes (stack manipulation) with fully symbolic content; PICK/ROLL counts: 0..1-byte encodings; programs through Script.evaluate: every sequence of <= 3 commands over the alphabet {push of a symbolic item of 0..2 bytes, OP_0, OP_1, IF, NOTIF, ELSE, ENDIF, VERIFY, RETURN, DUP, EQUAL, ADD, NOT}',
    'thorough': 'as quick with depth +1, WITHIN operands 0..5 bytes, programs of <= 4 commands',
}
OUTSIDE = 'real ECDSA inside CHECKSIG (oracle), altstack opcodes (not implemented by the library), programs longer than the bound or outside the alphabet, items longer than 5 bytes'

# deviation flag -> opcodes it affects (finding id is 'C19-' + flag)
FLAGS = {
    'truthy-nonempty': ['verify', 'ifdup', 'not', '0notequal', 'booland', 'boolor', 'equalverify', 'numequalverify'],
    'sub-order': ['sub'],
    'cmp-order': ['numlessthan', 'numgreaterthan', 'numlessthanorequal', 'numgreaterthanorequal'],
    'within-order': ['within'],
    '2swap-order': ['2swap'],
    'pick-roll-index': ['pick', 'roll'],
    'tuck-as-over': ['tuck'],
    'numequal-bytes': ['numequal', 'numnotequal', 'numequalverify'],
    'numequalverify-ignores-operand-failure': ['numequalverify'],
}


def listed_flags(opname=None):
    return [f for f, ops in FLAGS.items() if kf_listed('C19-' + f) and (opname is None or opname in ops)]


def _mods():
    import bitcoinlib.encoding as E
    import bitcoinlib.scripts as S
    return E, S


class _FakeDigest:
    def __init__(self, d):
        self.d = d

    def digest(self):
        return self.d


class _FakeHashlib:
    def __init__(self, H):
        self.H = H

    def sha1(self, x=b''):
        return _FakeDigest(self.H['sha1'](x))

    def sha256(self, x=b''):
        return _FakeDigest(self.H['sha256'](x))


_H = {}


def setup(ex):
    E, S = _mods()
    shims.install(E, int=shims.IntShim, bytes=shims.BytesShim)
    shims.install(S, int=shims.IntShim, bytes=shims.BytesShim)
    _H.clear()
    _H.update(ripemd160=stubs.HashStub('rmd', 20), sha1=stubs.HashStub('sha1', 20), sha256=stubs.HashStub('sha256', 32),
              hash160=stubs.HashStub('h160', 20))
    ex.axiom_sources = list(_H.values())
    shims.install(S, ripemd160=_H['ripemd160'], hash160=_H['hash160'], hashlib=_FakeHashlib(_H))


def _hashf(ex):
    if ex.concrete:
        import hashlib
        from bitcoinlib.encoding import hash160, ripemd160

        def f(name, data):
            data = bytes(data)
            if name == 'ripemd160':
                return ripemd160(data)
            if name == 'hash160':
                return hash160(data)
            return getattr(hashlib, name)(data).digest()
        return f
    return lambda name, data: _H[name](data)


def outcome_eq(ok1, st1, ok2, st2):
    if isinstance(ok1, bool) and isinstance(ok2, bool):
        if ok1 != ok2:
            return False
        if not ok1:
            return True
    else:
        raise core.EngineLimit("symbolic verdicts")
    if len(st1) != len(st2):
        return False
    return s_and(*[interp.eqb(a, b) for a, b in zip(st1, st2)])


def run_lib_op(S, name, items, args=()):
    st = S.Stack(list(items))
    try:
        r = getattr(st, 'op_' + name)(*args)
    except Exception:
        return False, list(st)
    return (r is not False), list(st)


def run_ref_op(name, items, cx):
    st = list(items)
    r = interp.OPS[name](st, cx)
    return (r is not False), st


# shapes: list of allowed lengths per stack position counted from the TOP; depth is chosen in 0..len(shape)
L05 = [0, 1, 2, 3, 4, 5]
L02 = [0, 1, 2]
L01 = [0, 1]

OP_SHAPES = {}
for _n in ('1add', '1sub', 'negate', 'abs', 'not', '0notequal'):
    OP_SHAPES[_n] = [L05, [1]]
for _n in ('add', 'sub', 'booland', 'boolor', 'numequal', 'numequalverify', 'numnotequal', 'numlessthan', 'numgreaterthan',
           'numlessthanorequal', 'numgreaterthanorequal', 'min', 'max'):
    OP_SHAPES[_n] = [L05, L05, [1]]
OP_SHAPES['within'] = [[0, 1, 2, 4, 5]] * 3 + [[1]]
for _n in ('nop', 'nop1', 'nop4', 'nop10', 'return', 'depth'):
    OP_SHAPES[_n] = [L02, L01]
for _n in ('verify', 'ifdup', 'drop', 'dup', 'size'):
    OP_SHAPES[_n] = [[0, 1, 2, 3], L01]
for _n in ('nip', 'over', 'swap', 'tuck', 'equal', 'equalverify', '2drop', '2dup'):
    OP_SHAPES[_n] = [L02, L02, L01]
for _n in ('rot', '3dup'):
    OP_SHAPES[_n] = [L01, L01, L01, L01]
for _n in ('2over', '2swap'):
    OP_SHAPES[_n] = [L01] * 5
OP_SHAPES['2rot'] = [L01] * 7
for _n in ('ripemd160', 'sha1', 'sha256', 'hash160', 'hash256'):
    OP_SHAPES[_n] = [[0, 1, 2, 20], L01]
HASH_OPS = ('ripemd160', 'sha1', 'sha256', 'hash160', 'hash256')


def h_op(ex, name, shape):
    E, S = _mods()
    depth = ex.choose('depth', list(range(len(shape) + 1)))
    items = []
    for pos in range(depth - 1, -1, -1):       # bottom first
        ln = ex.choose('len%d' % pos, shape[pos])
        items.append(ex.bytes('s%d' % pos, ln))
    lib_ok, lib_st = run_lib_op(S, name, items)
    hf = _hashf(ex)
    c_ok, c_st = run_ref_op(name, items, interp.Ctx(dev=(), hashf=hf))
    prop = outcome_eq(lib_ok, lib_st, c_ok, c_st)
    known = []
    fl = listed_flags(name)
    for f in fl:
        d_ok, d_st = run_ref_op(name, items, interp.Ctx(dev={f}, hashf=hf))
        known += kf('C19-' + f, outcome_eq(lib_ok, lib_st, d_ok, d_st))
    if len(fl) > 1:        # several listed deviations acting together (attributed to the last one)
        d_ok, d_st = run_ref_op(name, items, interp.Ctx(dev=set(fl), hashf=hf))
        known += kf('C19-' + fl[-1], outcome_eq(lib_ok, lib_st, d_ok, d_st))
    ex.check(prop, 'op_%s-consensus' % name, known=known)
    if name not in HASH_OPS:
        def conc(i):
            st = [i['s%d' % p] for p in range(depth - 1, -1, -1)]
            return run_lib_op(S, name, st)
        ex.validate((lib_ok, lib_st), conc, 'op_' + name)


LOCKTIME_THRESHOLD = 500000000          # BIP65 / Bitcoin Core LOCKTIME_THRESHOLD


def h_cltv(ex):
    """OP_CHECKLOCKTIMEVERIFY (BIP65) as the real Stack.op_checklocktimeverify decides it, for every top stack item of
    <= 6 bytes (more than 5 is an error), every transaction lock time and every input sequence number: fails on an empty stack, a negative
    number, mixed block-height / timestamp kinds (threshold 500 000 000), a lock time not yet reached, a final input
    sequence; otherwise passes and leaves the stack unchanged"""
    E, S = _mods()
    depth = ex.choose('depth', [0, 1, 2])
    ln = ex.choose('top_len', [0, 1, 2, 3, 4, 5, 6]) if depth else 0
    items = ([ex.bytes('below', 1)] if depth == 2 else []) + ([ex.bytes('top', ln)] if depth else [])
    tx_locktime = ex.int('tx_locktime', 0, 2 ** 32 - 1)
    sequence = ex.int('sequence', 0, 2 ** 32 - 1)
    if ex.concrete:
        tx_locktime, sequence = int(tx_locktime), int(sequence)
    lib_ok, lib_st = run_lib_op(S, 'checklocktimeverify', items, (sequence, tx_locktime))
    if depth == 0:
        want = False
    else:
        n = _scriptnum5(items[-1])
        same_kind = s_or(s_and(tx_locktime < LOCKTIME_THRESHOLD, n < LOCKTIME_THRESHOLD),
                         s_and(tx_locktime >= LOCKTIME_THRESHOLD, n >= LOCKTIME_THRESHOLD))
        want = s_and(n >= 0, same_kind, n <= tx_locktime, sequence != 0xffffffff) if ln <= 5 else False      # (numbers of more than 5 bytes: script error)
    ex.check(want == lib_ok if isinstance(want, bool) else (want if lib_ok else s_not(want)), 'op_checklocktimeverify-consensus')
    ex.check(len(lib_st) == len(items) and all(a is b for a, b in zip(lib_st, items)), 'op_checklocktimeverify-leaves-stack-unchanged')


def h_csv(ex):
    """OP_CHECKSEQUENCEVERIFY (BIP112) as the real Stack.op_checksequenceverify decides it, for every top stack item of
    <= 6 bytes, input sequence and transaction version"""
    E, S = _mods()
    depth = ex.choose('depth', [0, 1])
    ln = ex.choose('top_len', [0, 1, 2, 3, 4, 5, 6]) if depth else 0
    items = [ex.bytes('top', ln)] if depth else []
    sequence = ex.int('sequence', 0, 2 ** 32 - 1)
    version = ex.int('version', 0, 2 ** 31 - 1)
    if ex.concrete:
        sequence, version = int(sequence), int(version)
    st = S.Stack(list(items))
    try:
        r = st.op_checksequenceverify(sequence, version)
        lib_ok = r is not False
    except Exception:
        lib_ok = False
    if depth == 0 or ln > 5:
        want = False
    else:
        n = _scriptnum5(items[-1])
        DISABLE, TYPE, MASK = 1 << 31, 1 << 22, 0xffff | (1 << 22)
        enforced = s_and(version >= 2, (sequence & DISABLE) == 0, (n & TYPE) == (sequence & TYPE), (n & MASK) <= (sequence & MASK))
        want = s_and(n >= 0, s_or((n & DISABLE) != 0, enforced))
    nop = kf('C19-checksequenceverify-not-implemented', lib_ok is True)
    ex.check(want == lib_ok if isinstance(want, bool) else (want if lib_ok else s_not(want)), 'op_checksequenceverify-consensus', known=nop)


def _scriptnum5(b):
    """CScriptNum of up to 5 bytes: little-endian magnitude, sign in the top bit of the last byte"""
    if len(b) == 0:
        return 0
    mag = shims.IntShim.from_bytes(b[:-1] + bytes([0]), 'little') if len(b) > 1 else 0
    last = b[len(b) - 1]
    mag = mag + ((last & 0x7f) << (8 * (len(b) - 1)))
    neg = (last & 0x80) != 0
    return core.s_ite(neg, -mag, mag) if not isinstance(neg, bool) else (-mag if neg else mag)


def h_pick_roll(ex, name, maxdepth, wide):
    """PICK / ROLL: stack of `depth` one-byte items below a count item"""
    E, S = _mods()
    depth = ex.choose('depth', list(range(maxdepth + 1)))
    items = [ex.bytes('s%d' % k, 1) for k in range(depth)]
    has_n = ex.choose('has_count', [True, False])
    if has_n:
        ln = ex.choose('nlen', [0, 1] + ([2, 5] if wide else []))
        n = ex.bytes('n', ln)
        if ln >= 2:
            # wide encodings: keep the decoded count small (the library turns it into a list index; every value is a path)
            ex.assume(s_and(*[n[k] == 0 for k in range(1, ln - 1)]))
            ex.assume(s_or(n[ln - 1] == 0, n[ln - 1] == 0x80))
        items = items + [n]
    lib_ok, lib_st = run_lib_op(S, name, items)
    c_ok, c_st = run_ref_op(name, items, interp.Ctx())
    prop = outcome_eq(lib_ok, lib_st, c_ok, c_st)
    known = []
    for f in listed_flags(name):
        d_ok, d_st = run_ref_op(name, items, interp.Ctx(dev={f}))
        known += kf('C19-' + f, outcome_eq(lib_ok, lib_st, d_ok, d_st))
    ex.check(prop, 'op_%s-consensus' % name, known=known)


# ------------------------------------------------------------------------------------------ signature opcodes

def SIG(i):
    return bytes([0x30, 0x10 + i])


def KEY(j):
    return bytes([0x02, 0x20 + j])


class _FakeSigObj:
    def __init__(self, sid, V):
        self.sid, self.V = sid, V

    def verify(self, message, public_key):
        kid = public_key[1] - 0x20
        return self.V[self.sid][kid]


def _fake_signature_class(V, S):
    class FakeSignature:
        @staticmethod
        def parse_bytes(b, public_key=None):
            if len(b) != 2 or b[0] != 0x30:
                raise S.ScriptError("not a signature")          # the real parser raises on malformed / empty blobs
            return _FakeSigObj(b[1] - 0x10, V)
    return FakeSignature


def h_sigops(ex, name, maxn):
    """CHECKSIG / CHECKMULTISIG family through the real Stack methods with an arbitrary signature-validity relation
    V[sig][key]: same success/failure and same resulting stack as Bitcoin Core's algorithm"""
    E, S = _mods()
    multi = 'multisig' in name
    nk = ex.choose('nkeys', list(range(1, maxn + 1))) if multi else 1
    ns = ex.choose('nsigs', list(range(0, nk + 1))) if multi else 1
    V = [[ex.bool('v_%d_%d' % (i, j)) for j in range(nk)] for i in range(max(ns, 1))]
    below = ex.bytes('below', 1)
    if multi:
        dummy = ex.choose('dummy', ['present', 'missing'])
        items = ([below, b''] if dummy == 'present' else []) + [SIG(i) for i in range(ns)] + [bytes([ns]) if ns else b''] + \
                [KEY(j) for j in range(nk)] + [bytes([nk])]
    else:
        sigkind = ex.choose('sig', ['token', 'empty'])
        items = [below, SIG(0) if sigkind == 'token' else b'', KEY(0)]
    Fake = _fake_signature_class(V, S)
    if ex.concrete:
        old = S.Signature
        S.Signature = Fake
    else:
        shims.install(S, Signature=Fake)
    try:
        lib_ok, lib_st = run_lib_op(S, name, items, args=(b'msg',) if not multi else (b'msg', {}))
    finally:
        if ex.concrete:
            S.Signature = old

    def oracle(sig, key):
        if len(sig) != 2:
            return False                    # an empty signature is simply invalid in consensus
        return V[sig[1] - 0x10][key[1] - 0x20]
    c_ok, c_st = run_ref_op(name, items, interp.Ctx(checksig=oracle))
    prop = outcome_eq(lib_ok, lib_st, c_ok, c_st)
    known = []
    if not multi:
        known += kf('C19-checksig-empty-signature-aborts', items[1] == b'')
    else:
        known += kf('C19-checkmultisig-missing-dummy-tolerated', dummy == 'missing')
        known += kf('C19-checkmultisig-zero-signatures-fails', ns == 0)
    ex.check(prop, 'op_%s-consensus' % name, known=known)


# ------------------------------------------------------------------------------------------ programs

ALPHABET = ['push', 0, 81, 99, 100, 103, 104, 105, 106, 118, 135, 147, 145]
NAMES = {105: 'verify', 106: 'return', 118: 'dup', 135: 'equal', 147: 'add', 145: 'not', 117: 'drop', 124: 'swap'}


def h_program(ex, prefix, length):
    """a solver-chosen program through the real Script.evaluate vs the reference EvalScript"""
    E, S = _mods()
    n = ex.choose('n', list(range(len(prefix), length + 1)))
    cmds = []
    for k in range(n):
        c = prefix[k] if k < len(prefix) else ex.choose('cmd%d' % k, ALPHABET)
        if c == 'push':
            ln = ex.choose('plen%d' % k, [0, 1, 2])
            cmds.append(ex.bytes('p%d' % k, ln) if ln else b'')
        else:
            cmds.append(c)
    lib_cmds = list(cmds)
    s = S.Script(commands=lib_cmds)
    try:
        lib_ok = s.evaluate()
    except Exception:
        lib_ok = False
    lib_ok = bool(lib_ok)
    c_ok, _ = interp.eval_program(cmds, interp.Ctx(), NAMES)
    prop = (lib_ok == c_ok)
    known = []
    fl = listed_flags()
    if fl and kf_listed('C19-programs-inherit-listed-deviations'):
        d_ok, _ = interp.eval_program(cmds, interp.Ctx(dev=set(fl) | ({'if-else-once'} if kf_listed('C19-if-else-once') else set())), NAMES)
        known = kf('C19-programs-inherit-listed-deviations', lib_ok == d_ok)
    ex.check(prop, 'evaluate-verdict', known=known)
    # the one-sided claim of the property, without any deviation: consensus rejects => never reported valid
    ex.check((not lib_ok) or c_ok, 'never-valid-when-consensus-rejects', known=known)


def h_dispatch(ex, opcodes, lens, maxdepth=3):
    """the real Script.evaluate on  <0..3 symbolic pushes> OPCODE  vs the reference for the opcode NUMBER taken from
    Bitcoin Core's table: checks the opcode-number -> method dispatch and the final verdict/stack"""
    E, S = _mods()
    opcode = ex.choose('opcode', opcodes)
    depth = ex.choose('depth', list(range(maxdepth + 1)))
    items = []
    for k in range(depth):
        ln = ex.choose('len%d' % k, lens)
        items.append(ex.bytes('s%d' % k, ln) if ln else b'')
    # with a trailing OP_1 the result of OPCODE stays on the stack and is compared; without it the final verdict test
    # is applied to the result
    tail = ex.choose('tail', ['op_1', 'none'])
    cmds = items + [opcode] + ([0x51] if tail == 'op_1' else [])
    s = S.Script(commands=list(cmds))
    try:
        lib_ok = bool(s.evaluate())
    except Exception:
        lib_ok = False
    lib_st = list(s.stack)
    hf = _hashf(ex)

    def ref(dev, names):
        ok, st = interp.eval_program(cmds, interp.Ctx(dev=dev, hashf=hf), names)
        return ok, (st[:-1] if ok else st)
    c_ok, c_st = ref((), interp.CORE_OPCODES)
    prop = outcome_eq(lib_ok, lib_st, c_ok, c_st)
    known = []
    fl = listed_flags()
    if fl and kf_listed('C19-programs-inherit-listed-deviations'):
        names = dict(interp.CORE_OPCODES)
        if kf_listed('C19-lessthan-family-not-dispatchable'):
            for c in (0x9f, 0xa0, 0xa1, 0xa2):
                names.pop(c)
        d_ok, d_st = ref(set(fl), names)
        fid = 'C19-lessthan-family-not-dispatchable' if opcode in (0x9f, 0xa0, 0xa1, 0xa2) else 'C19-programs-inherit-listed-deviations'
        known = kf(fid, outcome_eq(lib_ok, lib_st, d_ok, d_st))
    ex.check(prop, 'dispatch_%02x-consensus' % opcode, known=known)
    ex.check((not lib_ok) or c_ok, 'dispatch_%02x-never-valid-when-consensus-rejects' % opcode, known=known)


FLOW = ['push', 99, 100, 103, 104]


def h_if_step(ex, opname, first, length):
    """one step of the library's conditional handling from an arbitrary position: Stack.op_if / op_notif rewrite the
    remaining command list (they splice the selected branch in front of the rest).  For every remaining command
    list of <= `length` commands over {push of a symbolic 1-byte item, IF, NOTIF, ELSE, ENDIF} and every condition
    item, the reference verdict of  <stack> IF <commands>  must equal the reference verdict of the rewritten
    <stack'> <commands'>  (and a refusal by the library must coincide with consensus failure)."""
    E, S = _mods()
    n = ex.choose('n', list(range(1, length + 1)))
    cmds = []
    for k in range(n):
        c = first if k == 0 else ex.choose('cmd%d' % k, FLOW)
        cmds.append(ex.bytes('p%d' % k, 1) if c == 'push' else c)
    tl = ex.choose('toplen', [0, 1, 2])
    top = ex.bytes('top', tl) if tl else b''
    below = ex.bytes('below', 1)
    st = S.Stack([below, top])
    rest = list(cmds)
    try:
        r = getattr(st, 'op_' + opname)(rest)
    except Exception:
        r = False
    code = 99 if opname == 'if' else 100
    before_ok, _ = interp.eval_program([below, top, code] + cmds, interp.Ctx(), NAMES)
    if r is False:
        ex.check(not before_ok, 'op_%s-refusal-only-when-consensus-fails' % opname)
        return
    after_ok, _ = interp.eval_program(list(st) + rest, interp.Ctx(), NAMES)
    ex.check(before_ok == after_ok, 'op_%s-step-preserves-consensus-verdict' % opname,
             known=[])


def _multi_else(cmds):
    """does the command list contain two ELSE at nesting level 1 before the matching ENDIF (consensus toggles on each)"""
    level, elses = 1, 0
    for c in cmds:
        if c in (99, 100):
            level += 1
        elif c == 104:
            level -= 1
            if level == 0:
                break
        elif c == 103 and level == 1:
            elses += 1
    return elses >= 2


def jobs(tier):
    q = tier == 'quick'
    J = []
    for name, shape in OP_SHAPES.items():
        if not q and name in ('add', 'sub', 'min', 'max', 'numequal'):
            pass
        j = Job('op_' + name, h_op, W=56, setup=setup, params=dict(name=name, shape=shape), budget_s=1500)
        j.cost = 40 if name in ('sub', 'add', 'min', 'max', 'within') else 5
        J.append(j)
    for name in ('checksig', 'checksigverify', 'checkmultisig', 'checkmultisigverify'):
        J.append(Job('op_' + name, h_sigops, W=56, setup=setup, params=dict(name=name, maxn=3), budget_s=1500))
    J.append(Job('op_checklocktimeverify', h_cltv, W=56, setup=setup, budget_s=1500))
    J.append(Job('op_checksequenceverify', h_csv, W=56, setup=setup, budget_s=1500))
    for name in ('pick', 'roll'):
        J.append(Job('op_' + name, h_pick_roll, W=56, setup=setup, params=dict(name=name, maxdepth=3 if q else 4, wide=not q), budget_s=1500))
    ops = [o for o in sorted(interp.CORE_OPCODES) if o not in (0x79, 0x7a)]
    for k in range(0, len(ops), 5):
        grp = ops[k:k + 5]
        J.append(Job('dispatch_%02x-%02x' % (grp[0], grp[-1]), h_dispatch, W=56, setup=setup,
                     params=dict(opcodes=grp, lens=[0, 1] if q else [0, 1, 2]), budget_s=3000))
    J.append(Job('dispatch_failing', h_dispatch, W=56, setup=setup, params=dict(opcodes=interp.CORE_FAILING, lens=[0, 1]), budget_s=3000))
    for o in (0x79, 0x7a):
        j = Job('dispatch_%02x' % o, h_dispatch, W=56, setup=setup, params=dict(opcodes=[o], lens=[0, 1], maxdepth=2 if q else 3), budget_s=3000)
        j.cost = 50
        J.append(j)
    for opname in ('if', 'notif'):
        for first in FLOW:
            J.append(Job('%s_step_%s' % (opname, first), h_if_step, W=56, setup=setup,
                         params=dict(opname=opname, first=first, length=4 if q else 6), budget_s=6000))
    L = 3 if q else 4
    for first in ALPHABET:
        if first in ('push', 0, 81):
            J.append(Job('prog_%s' % first, h_program, W=56, setup=setup, params=dict(prefix=[first], length=1), budget_s=600))
            for second in ALPHABET:
                j = Job('prog_%s_%s' % (first, second), h_program, W=56, setup=setup,
                        params=dict(prefix=[first, second], length=L + 1 if (q and first != 'push') else L), budget_s=3000)
                j.cost = 60 if second == 'push' else 10
                J.append(j)
        else:
            J.append(Job('prog_%s' % first, h_program, W=56, setup=setup, params=dict(prefix=[first], length=L), budget_s=3000))
    return J
