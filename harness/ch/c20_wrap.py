"""C20 wrappers: the real public query methods of Service, running on the real _provider_execute with two fake
providers (prov0 has the higher priority) and a fake cache.

Common parameters: o0, o1 in {0 answers, 1 raises ClientError, 2 answers False} = outcome of prov0 / prov1;
max_errors in {1, 2}.  The expected provider-level result comes from c20_common.spec_failover; every oracle below
says what the *wrapper* may then return:
  - the cached value when the cache hit applies,
  - exactly the answer of the provider selected by the specification,
  - and when the provider level fails: a ServiceError or the failure value False - never a made-up value.
`region`: 'main' = every scenario in which max_errors failing providers are not met before the first answer (or the
end of the provider list); 'limit' = only the scenarios in which they are (the documented result of _provider_execute
is then False, which the wrapper has to turn into / pass on as a failure).
"""
import os
import sys
sys.path.insert(0, os.path.dirname(os.path.abspath(__file__)))
import c20_common as F
SV = F.SV

ADDR0, ADDR1 = 'address-zero', 'address-one'
TXID = F.txid_of(0xa11ce)
TXID_OTHER = F.txid_of(0xb0b)
TXIDS = [F.txid_of(0x100 + i) for i in range(8)]
BC = 500                    # block height the fake cache reports as current
U = F.URLS


def _setup(ol, max_errors, cache, answer, min_providers=1, max_providers=1, network=F.NET_TEST):
    """Service with len(ol) providers, prov0 first in priority; provider i answers answer(i, method, args)"""
    k = len(ol)
    outs = [F.Lazy(o, 0, 2) for o in ol]
    srv = F.make_service(outs, [k - i for i in range(k)], max_errors, max_providers, min_providers, network, cache)
    for i in range(k):
        F.ANS[U[i]] = (lambda i: (lambda m, a: answer(i, m, a)))(i)
    return srv, outs


def _spec(outs, max_errors):
    return F.spec_failover(outs, list(range(len(outs))), max_errors)


def _call(fn, *args):
    try:
        return fn(*args), False
    except SV.ServiceError:
        return None, True


def _skip(verdict, region):
    """'main': max_errors failing providers are never met before the answer / the end of the list;
    'limit': they are (FAIL_LIMIT, or MAY where the library is free to fail)"""
    limit = verdict in (F.FAIL_LIMIT, F.MAY)
    return limit if region == 'main' else not limit


def _judge(verdict, first, res, raised, same):
    failed = raised or res is False
    if verdict == F.MUST_OK:
        return (not failed) and same(res, first)
    if verdict in F.MUST_FAIL:
        return failed
    return failed or same(res, first)


def _asked(method, args):
    """every provider call made so far was `method(*args)`"""
    for c in F.CALLS:
        if c[1] != method or c[2] != args:
            return False
    return True


# --------------------------------------------------------------------------------------------------------------------
# pass-through wrappers: sendrawtransaction, mempool, getrawtransaction
def _passthrough(which, hit, ol, max_errors, max_providers):
    F.install()
    try:
        cache = F.FakeCache()
        k = len(ol)
        answers = [{'txid': TXID, 'response_dict': 'from prov%d' % i} for i in range(k)]
        if which == 1:
            answers = [[TXID] + [TXID_OTHER] * i for i in range(k)]
        elif which == 2:
            answers = ['0100aa' + 'bb' * i for i in range(k)]
        srv, outs = _setup(ol, max_errors, cache, lambda i, m, a: answers[i], max_providers=max_providers)
        if which == 0:
            res, raised = _call(srv.sendrawtransaction, '0100beef')
            method, args = 'sendrawtransaction', ('0100beef',)
        elif which == 1:
            res, raised = _call(srv.mempool, TXID)
            method, args = 'mempool', (TXID,)
        else:
            cached = '0100cc'
            cache.rawtx = cached if hit else False
            res, raised = _call(srv.getrawtransaction, TXID)
            method, args = 'getrawtransaction', (TXID,)
            if cache.queries != [('getrawtransaction', bytes.fromhex(TXID))]:
                return False
            if hit:
                return (not raised) and res is cached and F.CALLS == [] and srv.results_cache_n == 1
        if not _asked(method, args) or cache.stored:
            return False
        verdict, first = _spec(outs, max_errors)
        return _judge(verdict, first, res, raised, lambda r, i: r is answers[i])
    finally:
        F.restore()


# --------------------------------------------------------------------------------------------------------------------
# gettransaction
def _gettransaction(hit, minp, ol, max_errors, wrong_txid):
    F.install()
    try:
        cache = F.FakeCache()
        ctx = F.FakeTx(TXID, 'cache')
        cache.tx = ctx if hit else None
        ptx = [F.FakeTx(TXID_OTHER if wrong_txid else TXID, 'prov%d' % i) for i in range(len(ol))]
        srv, outs = _setup(ol, max_errors, cache, lambda i, m, a: ptx[i], min_providers=minp)
        res, raised = _call(srv.gettransaction, TXID)
        if minp <= 1:
            if cache.queries != [('gettransaction', bytes.fromhex(TXID))]:
                return False
            if hit:
                return (not raised) and res is ctx and F.CALLS == [] and cache.stored == [] and srv.results_cache_n == 1
        elif cache.queries:
            return False        # comparing providers: the cache is documented to be off
        if not _asked('gettransaction', (TXID,)):
            return False
        verdict, first = _spec(outs, max_errors)
        # the provider's object, and still carrying the provider's data
        if not _judge(verdict, first, res, raised,
                      lambda r, i: r is ptx[i] and r.txid == (TXID_OTHER if wrong_txid else TXID) and r.tag == 'prov%d' % i):
            return False
        # cache consistency: what is stored is the object that is returned; nothing is stored on failure
        if raised or res is False or minp > 1:
            return cache.stored == []
        return len(cache.stored) == 1 and cache.stored[0][1] is res
    finally:
        F.restore()


# --------------------------------------------------------------------------------------------------------------------
# getbalance
def _getbalance(n_addr, apr, hit0, hit1, c0, c1, x0, x1, ol, max_errors, region):
    F.install()
    try:
        n_addr = F.conc(n_addr, 1, 2)
        cache = F.FakeCache()
        cache.bc = BC
        hits = [hit0, hit1 and n_addr == 2]
        cached = [c0, c1]
        if hits[0]:
            cache.addr[ADDR0] = F.Addr(BC, c0)
        if hits[1]:
            cache.addr[ADDR1] = F.Addr(BC, c1)
        bal = {ADDR0: x0, ADDR1: x1}
        # provider i reports balance x_j + 7 i for address j: the providers disagree, so the source is visible
        srv, outs = _setup(ol, max_errors, cache, lambda i, m, a: sum(bal[ad] + 7 * i for ad in a[0]))
        verdict, first = _spec(outs, max_errors)
        if _skip(verdict, region):
            return True
        res, raised = _call(srv.getbalance, [ADDR0, ADDR1][:n_addr], apr)
        failed = raised or res is False
        for c in F.CALLS:
            if c[1] != 'getbalance':
                return False
        # admissible totals: per address either the selected provider's figure or, on a cache hit, the cached figure
        prov_ok = verdict in (F.MUST_OK, F.MAY)
        totals = [0]
        for j in range(n_addr):
            adm = []
            if prov_ok:
                adm.append(bal[[ADDR0, ADDR1][j]] + 7 * first)
            if hits[j]:
                adm.append(cached[j])
            totals = [t + v for t in totals for v in adm]
        if failed:
            # failing is wrong only if the specification promises the provider answer
            return verdict != F.MUST_OK
        if isinstance(res, bool):
            return False
        for t in totals:
            if res == t:
                return True
        return False
    finally:
        F.restore()


# --------------------------------------------------------------------------------------------------------------------
# estimatefee
def _estimatefee(blocks, prio, hit, cfee, f, minp, ol, max_errors, region, network):
    F.install()
    try:
        priority = ['', 'low', 'high', 'medium'][F.conc(prio, 0, 3)]
        cache = F.FakeCache()
        cache.fee = cfee if hit else False
        srv, outs = _setup(ol, max_errors, cache, lambda i, m, a: f + 7 * i, min_providers=minp, network=network)
        verdict, first = _spec(outs, max_errors)
        if _skip(verdict, region):
            return True
        res, raised = _call(srv.estimatefee, blocks, priority)
        want_blocks = 25 if priority == 'low' else 2 if priority == 'high' else blocks       # documented mapping
        if minp <= 1:
            if cache.queries != [('estimatefee', want_blocks)]:
                return False
            if hit and cfee != 0:
                return (not raised) and res == cfee and F.CALLS == [] and cache.stored == [] and srv.results_cache_n == 1
        elif cache.queries:
            return False
        if not _asked('estimatefee', (want_blocks,)):
            return False

        def same(r, i):
            a = f + 7 * i
            # documented sanity clamp to the network's fee_min / fee_max
            want = network.fee_min if a < network.fee_min else network.fee_max if a > network.fee_max else a
            return (not isinstance(r, bool)) and r == want
        if not _judge(verdict, first, res, raised, same):
            return False
        if raised or res is False:
            return cache.stored == []
        return len(cache.stored) == 1 and cache.stored[0][1] == want_blocks and cache.stored[0][2] == res
    finally:
        F.restore()


# --------------------------------------------------------------------------------------------------------------------
# blockcount
def _blockcount(cbc, cnever, has_prev, prev, stale, n, ol, max_errors, off=7, small=False):
    F.install()
    try:
        if small:
            # the library formats both numbers into a log message: keep them concrete (see BOUNDS)
            cnever = F.conc(cnever, 1, 4)
            n = F.conc(n, 1, 4)
        cache = F.FakeCache()
        cache.bc = cbc if cbc != 0 else False           # 0 encodes "no unexpired entry"
        cache.bc_never = cnever if cnever != 0 else False
        srv, outs = _setup(ol, max_errors, cache, lambda i, m, a: n + off * i)
        srv._blockcount = prev if has_prev else None
        srv._blockcount_update = 0 if stale else F.FakeTime.time()
        res, raised = _call(srv.blockcount)
        if not _asked('blockcount', ()):
            return False
        if cbc != 0:
            return (not raised) and res == cbc and F.CALLS == [] and cache.stored == []
        if not stale:
            # documented: the count is kept for BLOCK_COUNT_CACHE_TIME seconds
            return (not raised) and res == prev and F.CALLS == [] and cache.stored == []
        verdict, first = _spec(outs, max_errors)
        failed = raised or res is False
        if failed:
            if verdict == F.MUST_OK:
                return False
        else:
            if isinstance(res, bool) or res is None:
                return False
            ok = False
            if verdict in (F.MUST_OK, F.MAY) and res == n + off * first:
                ok = True                                  # the selected provider's answer
            if has_prev and res == prev and (verdict != F.MUST_OK or prev >= n + off * first):
                ok = True                                  # the count remembered from an earlier answer (never go back)
            if not ok:
                return False
        # cache consistency: only the value that is returned is ever stored
        for s in cache.stored:
            if s[0] != 'blockcount' or failed or isinstance(s[1], bool) or s[1] != res:
                return False
        return True
    finally:
        F.restore()


# --------------------------------------------------------------------------------------------------------------------
# isspent
class _Out:
    def __init__(self, spent):
        self.spent = spent


def _isspent(hit, n_out, output_n, state, a, ol, max_errors, region):
    F.install()
    try:
        cache = F.FakeCache()
        n_out = F.conc(n_out, 0, 2)
        output_n = F.conc(output_n, 0, 2)
        state = [None, False, True][F.conc(state, 0, 2)]
        a = F.conc(a, 0, 1)
        ctx = F.FakeTx(TXID, 'cache')
        ctx.outputs = [_Out(state) for _ in range(n_out)]
        cache.tx = ctx if hit else None
        # providers answer 1 (spent) or 0 (unspent); neighbours in priority disagree
        srv, outs = _setup(ol, max_errors, cache, lambda i, m, arg: a if i % 2 == 0 else 1 - a)
        verdict, first = _spec(outs, max_errors)
        if _skip(verdict, region):
            return True
        res, raised = _call(srv.isspent, TXID, output_n)
        if hit and n_out > output_n and state is not None:
            return (not raised) and res is state and F.CALLS == []
        if not _asked('isspent', (TXID, output_n)):
            return False
        want = [bool(a), bool(1 - a), bool(a)]
        if cache.stored:
            return False
        # False is an answer of this method ("unspent"), so a failure can only be signalled by an exception
        if verdict == F.MUST_OK:
            return (not raised) and res is want[first]
        if verdict in F.MUST_FAIL:
            return raised
        return raised or res is want[first]
    finally:
        F.restore()


# --------------------------------------------------------------------------------------------------------------------
# getutxos / gettransactions: cached part + provider part
def _same_items(a, b):
    if not isinstance(a, list) or len(a) != len(b):
        return False
    for x, y in zip(a, b):
        if x is not y:
            return False
    return True


LIMITS = [1, 2, 20]


def _getutxos(n_c, n_p, limit_i, after, minp, v0, v1, ol, max_errors):
    F.install()
    try:
        n_c = F.conc(n_c, 0, 2)
        n_p = F.conc(n_p, 0, 2)
        limit = LIMITS[F.conc(limit_i, 0, 2)]
        after_txid = TXID_OTHER if after else ''
        cache = F.FakeCache()
        cutx = [{'address': ADDR0, 'txid': TXIDS[j], 'output_n': j, 'value': 1000 + j} for j in range(n_c)]
        cache.utxos = cutx
        vals = [v0, v1]
        putx = [[{'address': ADDR0, 'txid': TXIDS[4 + j], 'output_n': j, 'value': vals[j] + 7 * i} for j in range(n_p)]
                for i in range(len(ol))]
        srv, outs = _setup(ol, max_errors, cache, lambda i, m, a: putx[i], min_providers=minp)
        res, raised = _call(srv.getutxos, ADDR0, after_txid, limit)
        caching = minp <= 1
        cpart = cutx if caching else []
        if cache.queries != ([('getutxos', ADDR0, bytes.fromhex(after_txid))] if caching else []):
            return False
        # the providers are asked for what comes after the last cached utxo
        want_after = cpart[-1]['txid'] if cpart else after_txid
        if not _asked('getutxos', (ADDR0, want_after, limit)):
            return False
        verdict, first = _spec(outs, max_errors)
        if not _judge(verdict, first, res, raised, lambda r, i: _same_items(r, cpart + putx[i])):
            return False
        if raised or res is False:
            return cache.stored == []
        # cache consistency: exactly the provider's utxos are recorded, and a balance only if it is the sum of what is
        # returned
        prov = res[len(cpart):]
        k = 0
        for s in cache.stored:
            if s[0] == 'utxo':
                if k >= len(prov) or s[1] != prov[k]['txid'] or s[2] != prov[k]['output_n']:
                    return False
                k += 1
            elif s[0] == 'address':
                if s[1] != ADDR0 or s[2] != sum(u['value'] for u in res):
                    return False
            else:
                return False
        return k == len(prov)
    finally:
        F.restore()


def _gettransactions(n_c, n_p, limit_i, addr_state, after, minp, ol, max_errors):
    F.install()
    try:
        n_c = F.conc(n_c, 0, 2)
        n_p = F.conc(n_p, 0, 2)
        limit = LIMITS[F.conc(limit_i, 0, 2)]
        addr_state = F.conc(addr_state, 0, 2)          # 0 address unknown to the cache, 1 known but behind, 2 up to date
        after_txid = TXID_OTHER if after else ''
        cache = F.FakeCache()
        cache.bc = BC
        if addr_state:
            cache.addr[ADDR0] = F.Addr(BC if addr_state == 2 else BC - 10, 0)
        ctxs = [F.FakeTx(TXIDS[j], 'cache') for j in range(min(n_c, limit))]      # the cache honours `limit`
        cache.txs = ctxs
        ptxs = [[F.FakeTx(TXIDS[4 + j], 'prov%d' % i) for j in range(n_p)] for i in range(len(ol))]
        srv, outs = _setup(ol, max_errors, cache, lambda i, m, a: ptxs[i], min_providers=minp)
        res, raised = _call(srv.gettransactions, ADDR0, after_txid, limit)
        caching = minp <= 1
        cpart = ctxs if caching else []
        if cache.queries != ([('gettransactions', ADDR0, bytes.fromhex(after_txid), limit)] if caching else []):
            return False
        for s in cache.stored:          # cache consistency: only returned transactions are ever stored
            if s[0] == 'transaction' and (raised or not [t for t in res if t is s[1]]):
                return False
        if (caching and len(cpart) == limit) or (caching and addr_state == 2):
            # served from the cache alone: cache full up to the limit / address recorded as up to date
            return (not raised) and _same_items(res, cpart) and F.CALLS == []
        want_after = cpart[-1].txid if cpart else after_txid
        if not _asked('gettransactions', (ADDR0, want_after, limit - len(cpart))):
            return False
        verdict, first = _spec(outs, max_errors)
        return _judge(verdict, first, res, raised, lambda r, i: _same_items(r, cpart + ptxs[i]))
    finally:
        F.restore()



# --------------------------------------------------------------------------------------------------------------------
# cache round trip (Service-side logic only): first call with the given provider behaviour, second call with every
# provider down
class MemCache(F.FakeCache):
    """a cache that keeps what it is given (the documented contract of Cache, without SQL and without expiry)"""
    def __init__(self):
        F.FakeCache.__init__(self)
        self.mem_tx = {}
        self.mem_fee = {}

    def store_transaction(self, t, index=None, commit=True):
        self.stored.append(('transaction', t))
        self.mem_tx[bytes.fromhex(t.txid)] = t
        return True

    def gettransaction(self, txid):
        return self.mem_tx.get(txid)

    @staticmethod
    def _bucket(blocks):
        return 'fee_high' if blocks <= 1 else 'fee_medium' if blocks <= 5 else 'fee_low'

    def store_estimated_fee(self, blocks, fee):
        self.stored.append(('fee', blocks, fee))
        self.mem_fee[self._bucket(blocks)] = fee

    def estimatefee(self, blocks):
        return self.mem_fee.get(self._bucket(blocks), False)

    def store_blockcount(self, blockcount):
        self.stored.append(('blockcount', blockcount))
        self.bc = blockcount
        self.bc_never = blockcount


def _roundtrip(kind, minp, v, ol, max_errors):
    F.install()
    try:
        kind = F.conc(kind, 0, 2)
        cache = MemCache()
        k = len(ol)
        ptx = [F.FakeTx(TXID, 'prov%d' % i) for i in range(k)]

        def answer(i, m, a):
            return ptx[i] if m == 'gettransaction' else v + 7 * i
        srv, outs = _setup(ol, max_errors, cache, answer, min_providers=minp)

        def query():
            if kind == 0:
                return _call(srv.gettransaction, TXID)
            if kind == 1:
                return _call(srv.estimatefee, 3)
            return _call(srv.blockcount)
        res1, raised1 = query()
        failed1 = raised1 or res1 is False
        verdict, first = _spec(outs, max_errors)
        if verdict == F.MUST_OK and failed1:
            return False
        # the providers go away
        n_calls = len(F.CALLS)
        for i in range(k):
            F.OUT[U[i]] = F.Lazy(F.RAISE_SVC, 0, 2)
        srv._blockcount_update = 0
        srv.max_errors = k + 1          # (so that "nobody answers" is reported as ServiceError by every wrapper)
        res2, raised2 = query()
        failed2 = raised2 or res2 is False
        cached = (not failed1) and (minp <= 1 or kind == 2)       # comparing providers (min_providers > 1): cache off
        if cached:
            # answers served from the cache equal the answers that were stored, and no provider is needed
            if failed2 or len(F.CALLS) != n_calls:
                return False
            return (res2 is res1) if kind == 0 else (res2 == res1 and not isinstance(res2, bool))
        if kind == 2 and not failed2:
            return False        # (no earlier count: _blockcount is None)
        return failed2
    finally:
        F.restore()
