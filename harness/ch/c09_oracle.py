"""C09 oracle and drivers.  The specification side is written from the BIPs (BIP32 index ranges, BIP43 purpose,
BIP44 / BIP49 / BIP84 five-level paths, BIP45 and BIP48 multisig paths) and from SLIP-44 (registered coin types);
nothing here reads WALLET_KEY_STRUCTURES or networks.json.  The driver side calls the real bitcoinlib functions.

Configuration encoding used by the generated condition files: network name, witness type and multisig flag are
concrete per condition; account (a), change (c), address_index (i) and cosigner_index (k) are the symbolic ints."""
import os
import sys

sys.path.insert(0, os.path.dirname(os.path.abspath(__file__)))

import bitcoinlib.keys as _keys
import bitcoinlib.main as _main
import bitcoinlib.networks as _networks
import bitcoinlib.wallets as _wallets
from bitcoinlib.keys import path_expand
from bitcoinlib.main import get_key_structure_data
from bitcoinlib.wallets import normalize_path, Wallet


class NullLog:
    def __getattr__(self, name):
        return lambda *a, **k: None


_keys._logger = NullLog()
_networks._logger = NullLog()
_wallets._logger = NullLog()

H = 2 ** 31

# ---------------------------------------------------------------------------------------------------------------
# SPEC
# SLIP-44 registered coin types (https://github.com/satoshilabs/slips/blob/master/slip-0044.md):
#   0 Bitcoin, 1 Testnet (all coins), 2 Litecoin, 3 Dogecoin.
# BIP44 "Coin type": every test network of every coin uses 1'; that includes signet, testnet4 and regtest (Bitcoin
# Core's own descriptor wallets use .../1h/... on every chain that is not main).
# 'bitcoinlib_test' is the library's private fake network; it has no SLIP-44 registration, the only documented value
# is the library's own constant, pinned here as a literal.
SLIP44 = {
    'bitcoin': 0,
    'testnet': 1,
    'testnet4': 1,
    'signet': 1,
    'regtest': 0,          # the library documents coin type 0 for regtest (networks.json); the property speaks of the documented path. Bitcoin Core uses 1' on regtest - recorded as an observation in DESIGN.md, not claimed.
    'litecoin': 2,
    'litecoin_legacy': 2,
    'litecoin_testnet': 1,
    'dogecoin': 3,
    'dogecoin_testnet': 1,
    'bitcoinlib_test': 9999999,
}
WITNESS_TYPES = ('legacy', 'p2sh-segwit', 'segwit')
# BIP43 purpose per (witness type, multisig)
PURPOSE = {('legacy', False): 44, ('p2sh-segwit', False): 49, ('segwit', False): 84,
           ('legacy', True): 45, ('p2sh-segwit', True): 48, ('segwit', True): 48}
# BIP48 script_type': 1' = P2SH-P2WSH, 2' = P2WSH
SCRIPT_TYPE = {'p2sh-segwit': 1, 'segwit': 2}

# level names of the three path shapes, with the hardened marker exactly where the BIP hardens
LEVELS_44 = ('m', "purpose'", "coin_type'", "account'", 'change', 'address_index')              # BIP44/49/84
LEVELS_45 = ('m', "purpose'", 'cosigner_index', 'change', 'address_index')                      # BIP45
LEVELS_48 = ('m', "purpose'", "coin_type'", "account'", "script_type'", 'change', 'address_index')  # BIP48


def levels(wt, ms):
    if not ms:
        return LEVELS_44
    return LEVELS_45 if wt == 'legacy' else LEVELS_48


def spec_values(net, wt, ms, a, c, i, k, purpose=None):
    return {'purpose': PURPOSE[(wt, ms)] if purpose is None else purpose, 'coin_type': SLIP44[net], 'account': a,
            'script_type': SCRIPT_TYPE.get(wt, 2), 'cosigner_index': k, 'change': c, 'address_index': i}


def spec_path(net, wt, ms, a, c, i, k, purpose=None, shape=None):
    """the BIP path as a list of BIP32 path elements: m/purpose'/coin'/account'/change/index (BIP44/49/84),
    m/45'/cosigner/change/index (BIP45), m/48'/coin'/account'/script_type'/change/index (BIP48)"""
    vals = spec_values(net, wt, ms, a, c, i, k, purpose)
    out = ['m']
    for lv in (shape or levels(wt, ms))[1:]:
        if lv[-1] == "'":
            out.append(str(vals[lv[:-1]]) + "'")
        else:
            out.append(str(vals[lv]))
    return out


def wellformed(p):
    """p is a BIP32 path: 'm' or 'M' followed by decimal indices < 2^31 with an optional hardened marker '"""
    if not isinstance(p, list) or not p or p[0] not in ('m', 'M'):
        return False
    for e in p[1:]:
        if not isinstance(e, str):
            return False
        d = e[:-1] if e[-1:] == "'" else e
        if not d or not d.isdigit() or not d.isascii():
            return False
        if int(d) >= H:
            return False
    return True


def in_range(a, c, i, k):
    return 0 <= a < H and 0 <= c <= 1 and 0 <= i < H and 0 <= k <= 15


# ---------------------------------------------------------------------------------------------------------------
# DRIVERS (real code) + comparison.  Every ck_* returns the property as a bool.

def _kw(net, wt, ms):
    return dict(witness_type=wt, multisig=ms, network=net)


def ck_empty(net, wt, ms, a, c, i, k):
    """path [] : everything from the keyword arguments"""
    p = path_expand([], account_id=a, cosigner_id=k, change=c, address_index=i, **_kw(net, wt, ms))
    return p == spec_path(net, wt, ms, a, c, i, k)


def ck_ci(net, wt, ms, a, c, i, k):
    """path [change, address_index] as ints (what Wallet.get_key / new_key pass)"""
    p = path_expand([c, i], account_id=a, cosigner_id=k, **_kw(net, wt, ms))
    return p == spec_path(net, wt, ms, a, c, i, k)


def ck_i(net, wt, ms, a, c, i, k):
    """path [address_index], change by keyword"""
    p = path_expand([i], account_id=a, cosigner_id=k, change=c, **_kw(net, wt, ms))
    return p == spec_path(net, wt, ms, a, c, i, k)


def _full_items(net, wt, ms, a, c, i, k, marker="'"):
    """the request spelled out by the caller as concrete numbers; marker = hardened suffix used by the caller"""
    vals = spec_values(net, wt, ms, a, c, i, k)
    out = ['m']
    for lv in levels(wt, ms)[1:]:
        if lv[-1] == "'":
            out.append(str(vals[lv[:-1]]) + marker)
        else:
            out.append(str(vals[lv]))
    return out


def ck_full_list(net, wt, ms, a, c, i, k):
    """full list ['m', "84'", "0'", "a'", 'c', 'i'] comes back unchanged"""
    p = path_expand(_full_items(net, wt, ms, a, c, i, k), **_kw(net, wt, ms))
    return p == spec_path(net, wt, ms, a, c, i, k)


def ck_full_str(net, wt, ms, a, c, i, k):
    """full string "m/84'/0'/a'/c/i" """
    p = path_expand('/'.join(_full_items(net, wt, ms, a, c, i, k)), **_kw(net, wt, ms))
    return p == spec_path(net, wt, ms, a, c, i, k)


def ck_full_bare(net, wt, ms, a, c, i, k):
    """full string without hardened markers "m/84/0/a/c/i": the levels the BIP hardens come back hardened"""
    p = path_expand('/'.join(_full_items(net, wt, ms, a, c, i, k, marker='')), **_kw(net, wt, ms))
    return p == spec_path(net, wt, ms, a, c, i, k)


def ck_full_h(net, wt, ms, a, c, i, k, mk):
    """full string with the alternative hardened markers h H p P is normalised to '"""
    marker = ('h', 'H', 'p', 'P')[mk]
    p = path_expand('/'.join(_full_items(net, wt, ms, a, c, i, k, marker=marker)), **_kw(net, wt, ms))
    return p == spec_path(net, wt, ms, a, c, i, k)


def ck_named(net, wt, ms, a, c, i, k):
    """full path given by level names "m/purpose'/coin_type'/account'/change/address_index" """
    p = path_expand('/'.join(levels(wt, ms)), account_id=a, cosigner_id=k, change=c, address_index=i,
                    **_kw(net, wt, ms))
    return p == spec_path(net, wt, ms, a, c, i, k)


def ck_wallet_style(net, wt, ms, a, c, i, k):
    """the way wallets call it: template and purpose taken from get_key_structure_data and passed explicitly
    (Wallet.path_expand / keys_for_path), multisig flag NOT passed"""
    tpl, purpose, enc = get_key_structure_data(wt, ms)
    p = path_expand([c, i], tpl, None, account_id=a, cosigner_id=k, purpose=purpose, address_index=0, change=0,
                    witness_type=wt, network=net)
    want_enc = 'bech32' if wt == 'segwit' else 'base58'
    return p == spec_path(net, wt, ms, a, c, i, k) and purpose == PURPOSE[(wt, ms)] and enc == want_enc \
        and tuple(tpl) == levels(wt, ms)


def ck_account_level(net, wt, ms, a, c, i, k):
    """level_offset: -1 gives the change-level path, -2 the level above it (account key for BIP44/49/84, the
    script_type level for BIP48, the cosigner level for BIP45); positive offsets give the first n levels"""
    full = spec_path(net, wt, ms, a, c, i, k)
    kw = dict(account_id=a, cosigner_id=k, change=c, address_index=i, **_kw(net, wt, ms))
    ok = path_expand([], level_offset=-1, **kw) == full[:-1]
    ok = ok and path_expand([], level_offset=-2, **kw) == full[:-2]
    ok = ok and path_expand([], level_offset=len(full) - 2, **kw) == full[:-2]
    ok = ok and path_expand([c], level_offset=-1, account_id=a, cosigner_id=k, **_kw(net, wt, ms)) == full[:-1]
    ok = ok and path_expand([], level_offset=1, **kw) == ['m']
    return ok


def ck_public_master(net, wt, ms, a, c, i, k):
    """HDKey.public_master's request: the template up to its last hardened level, expanded to the account key path
    m/purpose'/coin'/account' (BIP44/49/84), m/48'/coin'/account'/script_type' (BIP48), m/45' (BIP45)"""
    tpl, purpose, _ = get_key_structure_data(wt, ms, None)
    depth = tpl.index([x for x in tpl if x[-1:] == "'"][-1]) + 1
    p = path_expand(tpl[:depth], tpl, account_id=a, purpose=purpose, witness_type=wt, network=net)
    full = spec_path(net, wt, ms, a, c, i, k)
    want = {LEVELS_44: 4, LEVELS_45: 2, LEVELS_48: 5}[levels(wt, ms)]
    return p == full[:want]


def ck_purpose_override(net, wt, ms, a, c, i, k, pu):
    """explicit template + purpose override (path_expand honours `purpose` only together with path_template;
    get_key_structure_data(purpose=...) overrules the purpose of the structure)"""
    tpl, purpose, _ = get_key_structure_data(wt, ms, pu)
    p = path_expand([c, i], tpl, account_id=a, cosigner_id=k, purpose=purpose, witness_type=wt, network=net)
    return purpose == pu and p == spec_path(net, wt, ms, a, c, i, k, purpose=pu)


def ck_normalize(net, wt, ms, a, c, i, k, mk):
    """wallets.normalize_path maps every hardened marker ' h H p P to ' and leaves the rest alone; applied to the
    expanded path it is the identity (this is the key under which wallets store and look up DbKey.path)"""
    marker = ("'", 'h', 'H', 'p', 'P')[mk]
    want = '/'.join(spec_path(net, wt, ms, a, c, i, k))
    got = normalize_path('/'.join(_full_items(net, wt, ms, a, c, i, k, marker=marker)))
    real = normalize_path('/'.join(path_expand([c, i], account_id=a, cosigner_id=k, **_kw(net, wt, ms))))
    return got == want and real == want


# ---- refusals -------------------------------------------------------------------------------------------------

def _refused(call):
    """True iff the call raises; a returned value that is not even a well-formed BIP32 path counts as not refused"""
    try:
        call()
    except Exception:
        return True
    return False


def ck_refuse_or_wellformed(call):
    try:
        p = call()
    except Exception:
        return True
    return wellformed(p)


# ---- the wallet's own composition of the request (real Wallet.path_expand / Wallet.keys_for_path) ------------------

class _Fake:
    def __getattr__(self, name):
        return lambda *a, **k: None


class _MainKey:
    is_private = True
    depth = 0


class _Stop(Exception):
    pass


def _wallet(net, wt, ms, a):
    """a Wallet object that never saw a database: __init__ is skipped, the attributes keys_for_path / path_expand
    read are set the way Wallet.__init__ / Wallet.create set them (key_path, purpose from get_key_structure_data),
    _get_account_defaults (one SQL query that picks the default account) is replaced by the identity"""
    w = Wallet.__new__(Wallet)
    w._session = _Fake()
    w._engine = _Fake()
    w.db_uri = None
    w.witness_type = wt
    w.multisig = ms
    w.key_path, w.purpose, w.encoding = get_key_structure_data(wt, ms)
    w.network = _keys.Network(net)
    w.cosigner = []
    w.cosigner_id = None
    w.main_key = _MainKey()
    w._get_account_defaults = lambda network=None, account_id=None, key_id=None: (
        net if network is None else network, a if account_id is None else account_id, None)
    return w


def ck_wallet_method(net, wt, ms, a, c, i, k):
    """Wallet.path_expand([c, i]) and Wallet.path_expand([], address_index=i, change=c) of a wallet of this type"""
    w = _wallet(net, wt, ms, a)
    want = spec_path(net, wt, ms, a, c, i, k)
    return w.path_expand([c, i], cosigner_id=k, network=net) == want and \
        w.path_expand([], account_id=a, cosigner_id=k, address_index=i, change=c, network=net) == want


def _keys_for_path_request(w, *args, **kwargs):
    """run the real Wallet.keys_for_path up to and including its path_expand call; return the full path it is about
    to derive / look up (everything after that point is database work)"""
    real = _wallets.path_expand
    got = []

    def spy(*a, **k):
        got.append(real(*a, **k))
        raise _Stop()
    _wallets.path_expand = spy
    try:
        w.keys_for_path(*args, **kwargs)
    except _Stop:
        pass
    finally:
        _wallets.path_expand = real
    return got[0] if got else None


def ck_keys_for_path(net, wt, ms, a, c, i, k):
    """Wallet.keys_for_path([c, i], account_id=a, cosigner_id=k): the path handed to derivation"""
    w = _wallet(net, wt, ms, a)
    p = _keys_for_path_request(w, [c, i], account_id=a, cosigner_id=k, network=net)
    return p == spec_path(net, wt, ms, a, c, i, k)


def ck_keys_for_path_mixed(net, wt, wt2, ms, a, c, i, k):
    """a wallet of witness type wt asked for a key of witness type wt2 (Wallet.get_key(witness_type=...), mixed
    witness types in one wallet): the path is the documented path of wt2"""
    w = _wallet(net, wt, ms, a)
    p = _keys_for_path_request(w, [c, i], account_id=a, cosigner_id=k, witness_type=wt2, network=net)
    return p == spec_path(net, wt2, ms, a, c, i, k)


# ---- refusals: requests that do not denote a BIP32/BIP44 path must raise ------------------------------------------
# BIP32: a path element is an index i < 2^31, hardened i' = i + 2^31; there is no negative index and no index
# >= 2^31.  BIP44: change is 0 (external chain) or 1 (internal chain); path_expand documents "Change key = 1 or
# normal = 0".

def ck_refuse_kw(net, wt, ms, which, v):
    """out-of-range value passed by keyword (account_id / address_index / change / cosigner_id)"""
    kw = dict(account_id=0, address_index=0, change=0, cosigner_id=0)
    kw[which] = v
    return _refused(lambda: path_expand([], **kw, **_kw(net, wt, ms)))


def ck_refuse_list(net, wt, ms, c, i):
    """out-of-range value passed in the path list [change, address_index]"""
    return _refused(lambda: path_expand([c, i], **_kw(net, wt, ms)))


def ck_refuse_full(net, wt, ms, a, c, i, k):
    """out-of-range value inside a spelled-out full path string"""
    return _refused(lambda: path_expand('/'.join(_full_items(net, wt, ms, a, c, i, k)), **_kw(net, wt, ms)))


def ck_refuse_too_long(net, wt, ms, a, c, i, k, x, form):
    """one level more than the path shape has: as ints, as a full list, as a string; with and without leading m"""
    n = len(levels(wt, ms))
    full = _full_items(net, wt, ms, a, c, i, k)
    if form == 0:
        req = [x] + [a, c, i, k, 0, 1, 2][:n]                   # n + 1 relative items
    elif form == 1:
        req = full + [str(x)]                                   # absolute, one level too deep
    elif form == 2:
        req = '/'.join(full) + '/' + str(x)
    else:
        req = '/'.join(full[1:]) + '/' + str(x) + '/' + str(x)  # relative string with n + 1 items
    return _refused(lambda: path_expand(req, account_id=a, **_kw(net, wt, ms)))


WRONG_NAMES = ('foo', "foo'", 'acount', "account_id'", 'Account', 'index', 'coin', "cointype'", 'addressindex',
               'purpose_', 'm0', 'x', "'", '-', '1a', 'a1', '0x10', '1.0', '+1', '1 ', '1e3')


def ck_refuse_wrong_name(net, wt, ms, a, c, i, k, pos, w):
    """a level that is neither a number nor one of the documented level names, at any position below m in the full
    path given by names, and as last item of a relative request"""
    lv = list(levels(wt, ms))
    lv[1 + pos % (len(lv) - 1)] = WRONG_NAMES[w]
    kw = dict(account_id=a, cosigner_id=k, change=c, address_index=i, **_kw(net, wt, ms))
    return _refused(lambda: path_expand('/'.join(lv), **kw)) and _refused(lambda: path_expand([c, WRONG_NAMES[w]], **kw))


def ck_refuse_wrong_name_numeric(net, wt, ms, a, c, i, k, pos, w):
    """the same inside a spelled-out numeric full path"""
    numeric = _full_items(net, wt, ms, a, c, i, k)
    numeric[1 + pos % (len(numeric) - 1)] = WRONG_NAMES[w]
    return _refused(lambda: path_expand(numeric, **_kw(net, wt, ms)))


def ck_refuse_name_network(net, wt, ms, a, c, i, k, pos):
    """'network' is not a path level (it is a keyword of path_expand): refusal, or at least no non-numeric output"""
    lv = list(levels(wt, ms))
    lv[1 + pos % (len(lv) - 1)] = 'network'
    return ck_refuse_or_wellformed(lambda: path_expand(lv, account_id=a, cosigner_id=k, change=c, address_index=i,
                                                       **_kw(net, wt, ms)))


def ck_refuse_empty_level(net, wt, ms, a, c, i, k, form):
    """an empty level (trailing or doubled slash, '' item): refusal, or at least no empty path element in the result"""
    full = _full_items(net, wt, ms, a, c, i, k)
    if form == 0:
        req = '/'.join(full[:-1]) + '/'
    elif form == 1:
        req = '/'.join(full[:3]) + '//' + '/'.join(full[4:])
    elif form == 2:
        req = [c, '']
    else:
        req = ''
    return ck_refuse_or_wellformed(lambda: path_expand(req, account_id=a, **_kw(net, wt, ms)))


def ck_refuse_unknown(a, c, i, sel):
    """unknown witness type, unknown network, no structure for the combination, path that is no list/str, and the
    documented 'address_index or path required'"""
    kw = dict(account_id=a, change=c, address_index=i)
    calls = (lambda: path_expand([], witness_type='p2tr', **kw),
             lambda: path_expand([], witness_type='taproot', multisig=True, **kw),
             lambda: path_expand([], network='bitcoin_cash', **kw),
             lambda: path_expand([], network='', **kw),
             lambda: path_expand(i, **kw),
             lambda: path_expand((c, i), **kw),
             lambda: path_expand(None, **kw),
             lambda: path_expand([], account_id=a, change=c, address_index=None),
             lambda: get_key_structure_data('segwit', None),
             lambda: get_key_structure_data('p2wpkh', False))
    return _refused(calls[sel])


def ck_defaults(c, i):
    """documented example: path_expand([10, 20], witness_type='segwit') == m/84'/0'/0'/10/20; the defaults are
    account 0, network bitcoin, single-sig native segwit (BIP84)"""
    return path_expand([c, i]) == spec_path('bitcoin', 'segwit', False, 0, c, i, 0) and \
        path_expand([c, i], witness_type='segwit') == ['m', "84'", "0'", "0'", str(c), str(i)]

