"""C20 core: the real Service._provider_execute over k fake providers with solver-chosen outcomes / priorities."""
import os
import sys
sys.path.insert(0, os.path.dirname(os.path.abspath(__file__)))
import c20_common as F
SV = F.SV


# Provider i's answer.  Deliberately "empty-looking" but valid data (balance 0, no utxos, ...): only the value False is
# documented as "no answer", so these must come back as answers; they are pairwise different, so the source is visible.
ANSWERS = [0, [], '', ()]


def _answer_of(i):
    return ANSWERS[i]


def _is(res, i):
    return type(res) is type(ANSWERS[i]) and res == ANSWERS[i]


ALPHA_B = (F.ANSWER, F.RAISE_PLAIN, F.EMPTY, F.NO_METHOD)


def _core(outs, prios, max_errors, max_providers, ignore_priority=False, strict_limit=False, kp=None, amap=None):
    """Run the real _provider_execute('getdata', 1) on len(outs) providers and compare with the fail-over
    specification.  outs[i]: outcome of provider i (an index into amap if given); prios: distinct priorities in
    0..k-1; kp: index of a provider that is configured without api key, or None."""
    k = len(outs)
    outs = [F.Lazy(o, 0, 5 if amap is None else len(amap) - 1, amap) for o in outs]
    prios = [F.conc(p, 0, k - 1) for p in prios]
    need_key = () if kp is None else (F.conc(kp, 0, k - 1),)
    F.install()
    try:
        for i in range(k):
            F.ANS[F.url(i)] = (lambda i: (lambda method, args: ANSWERS[i]))(i)
        srv = F.make_service(outs, prios, max_errors, max_providers, ignore_priority=ignore_priority, need_key=need_key)
        try:
            res = srv._provider_execute('getdata', 1)
            raised = False
        except SV.ServiceError:
            res = None
            raised = True
        failed = raised or res is False
        order = sorted(range(k), key=lambda i: prios[i] if ignore_priority else -prios[i])
        verdict, first = F.spec_failover(outs, order, max_errors, need_key)
        # (a) no fabrication: a value that is returned is the answer of an answering provider - and, more precisely,
        #     of the highest-priority answering one
        if not failed:
            if first is None or not _is(res, first):
                return False
        # (b) availability   (c) failure when nobody answers / the error limit is reached by raising providers first
        if verdict == F.MUST_OK and failed:
            return False
        if verdict in F.MUST_FAIL and not failed:
            return False
        if strict_limit and verdict == F.MAY and not failed:
            return False
        # bookkeeping the wrappers rely on: results holds answers of answering providers only, keyed by provider name;
        # errors names failing providers only; never more than max_providers results; nothing left over on failure
        for name in srv.results:
            i = int(name[4:])
            if outs[i].get() != F.ANSWER or not _is(srv.results[name], i) or i in need_key:
                return False
        for name in srv.errors:
            if outs[int(name[4:])].get() not in F.FAILING:
                return False
        if len(srv.results) > max_providers or srv.resultcount != len(srv.results):
            return False
        if failed and len(srv.results) != 0:
            return False
        # providers are asked in priority order, each at most once, the ones without api key never
        asked = [int(c[0][1:]) for c in F.CALLS]
        pos = [order.index(i) for i in asked]
        if pos != sorted(pos) or len(set(asked)) != len(asked) or [i for i in asked if i in need_key]:
            return False
        return True
    finally:
        F.restore()

