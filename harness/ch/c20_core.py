"""C20 core: the real Service._provider_execute over k fake providers with solver-chosen outcomes / priorities."""
import os
import sys
sys.path.insert(0, os.path.dirname(os.path.abspath(__file__)))
import c20_common as F
SV = F.SV


def _answer_of(i):
    return ('answer', F.url(i))


def _core(outs, prios, max_errors, max_providers, ignore_priority=False, strict_limit=False, need_key=()):
    """run the real _provider_execute('getdata', 1) and compare with the fail-over specification"""
    k = len(outs)
    F.install()
    try:
        for i in range(k):
            F.ANS[F.url(i)] = (lambda u: (lambda method, args: ('answer', u)))(F.url(i))
        srv = F.make_service(outs, prios, max_errors, max_providers, ignore_priority=ignore_priority, need_key=need_key)
        try:
            res = srv._provider_execute('getdata', 1)
            raised = False
        except SV.ServiceError:
            res = None
            raised = True
        failed = raised or res is False
        order = sorted(range(k), key=lambda i: prios[i] if ignore_priority else -prios[i])
        verdict, first = F.spec_failover(outs, order, max_errors, need_key)
        # (a) no fabrication: a value that is returned is the answer of an answering provider - and, more precisely,
        #     of the highest-priority answering one
        if not failed:
            if first is None or res != _answer_of(first):
                return False
        # (b) availability   (c) failure when nobody answers / the error limit is reached by raising providers first
        if verdict == F.MUST_OK and failed:
            return False
        if verdict == F.MUST_FAIL and not failed:
            return False
        if strict_limit and verdict == F.MAY and not failed:
            return False
        # bookkeeping the wrappers rely on: results holds answers of answering providers only, keyed by provider name;
        # errors names failing providers only; never more than max_providers results; nothing left over on failure
        for name in srv.results:
            i = int(name[4:])
            if outs[i] != F.ANSWER or srv.results[name] != _answer_of(i) or i in need_key:
                return False
        for name in srv.errors:
            if outs[int(name[4:])] not in F.FAILING:
                return False
        if len(srv.results) > max_providers or srv.resultcount != len(srv.results):
            return False
        if failed and len(srv.results) != 0:
            return False
        # providers are asked in priority order, each at most once, the ones without api key never
        asked = [int(c[0][1:]) for c in F.CALLS]
        pos = [order.index(i) for i in asked]
        if pos != sorted(pos) or len(set(asked)) != len(asked) or [i for i in asked if i in need_key]:
            return False
        return True
    finally:
        F.restore()


def chk_pe3_mp1(o0: int, o1: int, o2: int, p0: int, p1: int, p2: int, max_errors: int) -> bool:
    """
    pre: 0 <= o0 <= 5 and 0 <= o1 <= 5 and 0 <= o2 <= 5
    pre: 0 <= p0 <= 2 and 0 <= p1 <= 2 and 0 <= p2 <= 2 and p0 != p1 and p1 != p2 and p0 != p2
    pre: 1 <= max_errors <= 4
    post: _
    """
    return _core([o0, o1, o2], [p0, p1, p2], max_errors, 1)


def chk_pe3_mp2(o0: int, o1: int, o2: int, p0: int, p1: int, p2: int, max_errors: int) -> bool:
    """
    pre: 0 <= o0 <= 5 and 0 <= o1 <= 5 and 0 <= o2 <= 5
    pre: 0 <= p0 <= 2 and 0 <= p1 <= 2 and 0 <= p2 <= 2 and p0 != p1 and p1 != p2 and p0 != p2
    pre: 1 <= max_errors <= 4
    post: _
    """
    return _core([o0, o1, o2], [p0, p1, p2], max_errors, 2)


def chk_pe3_mp3(o0: int, o1: int, o2: int, p0: int, p1: int, p2: int, max_errors: int) -> bool:
    """
    pre: 0 <= o0 <= 5 and 0 <= o1 <= 5 and 0 <= o2 <= 5
    pre: 0 <= p0 <= 2 and 0 <= p1 <= 2 and 0 <= p2 <= 2 and p0 != p1 and p1 != p2 and p0 != p2
    pre: 1 <= max_errors <= 4
    post: _
    """
    return _core([o0, o1, o2], [p0, p1, p2], max_errors, 3)


def chk_pe3_ignore_priority(o0: int, o1: int, o2: int, p0: int, p1: int, p2: int, max_errors: int,
                            max_providers: int) -> bool:
    """
    pre: 0 <= o0 <= 3 and 0 <= o1 <= 3 and 0 <= o2 <= 3
    pre: 0 <= p0 <= 2 and 0 <= p1 <= 2 and 0 <= p2 <= 2 and p0 != p1 and p1 != p2 and p0 != p2
    pre: 1 <= max_errors <= 3 and 1 <= max_providers <= 2
    post: _
    """
    return _core([o0, o1, o2], [p0, p1, p2], max_errors, max_providers, ignore_priority=True)


def chk_pe3_strict_limit(o0: int, o1: int, o2: int, max_errors: int) -> bool:
    """NOT REGISTERED (see harness/c20.py): the strict reading 'max_errors errors of any kind before the first answer
    => the call fails'.  The library counts an empty answer as an error but only tests the limit when a provider
    raises, so (EMPTY, ANSWER, _) with max_errors=1 succeeds.

    pre: 0 <= o0 <= 3 and 0 <= o1 <= 3 and 0 <= o2 <= 3
    pre: 1 <= max_errors <= 3
    post: _
    """
    return _core([o0, o1, o2], [2, 1, 0], max_errors, 1, strict_limit=True)
