"""C20 fixtures shared by the CrossHair condition files c20_*.py (not a condition file itself).

Everything that talks to the outside world is replaced here, and only here:
  * provider client classes  -> FakeClient, injected as module `bitcoinlib.services.c20fake`
  * Service.cache            -> FakeCache (solver-chosen hit/miss and values, records every store_* call)
  * logging / clock / random -> NullLog / FakeDT / FakeTime / Rnd
The Service object is made with Service.__new__ + attribute assignment (the constructor opens providers.json, the
SQL cache and calls blockcount() over the network).  The code that runs on it is the unmodified
bitcoinlib/services/services.py.
"""
import bitcoinlib.services.services as SV
import bitcoinlib.services.baseclient as BC
from bitcoinlib import services as SP
from bitcoinlib.networks import Network

# provider outcomes
ANSWER, RAISE_SVC, EMPTY, RAISE_ATTR, NO_METHOD, RAISE_PLAIN = 0, 1, 2, 3, 4, 5
FAILING = (RAISE_SVC, EMPTY, RAISE_PLAIN)           # outcomes the library books in Service.errors
SKIPPED = (RAISE_ATTR, NO_METHOD)        # provider cannot serve the method: skipped, not an error

NET_TEST = Network('bitcoinlib_test')               # fee_default 10000, fee_min 1000, fee_max 1000000
NET_BTC = Network('bitcoin')                        # fee_default None

class Lazy:
    """A solver-chosen small int that is turned into the equal concrete int the first time somebody looks at it (one
    case split per value instead of one solver round trip per later comparison; a value nobody looks at - the outcome
    of a provider that is never consulted - costs nothing)."""
    def __init__(self, v, lo, hi, amap=None):
        self.v, self.lo, self.hi, self.amap, self.c = v, lo, hi, amap, None

    def get(self):
        if self.c is None:
            c = conc(self.v, self.lo, self.hi)
            self.c = c if self.amap is None else self.amap[c]
        return self.c


def conc(v, lo, hi):
    """the concrete int in [lo, hi] equal to v (pre: lo <= v <= hi)"""
    for c in range(lo, hi):
        if v == c:
            return c
    return hi


OUT = {}        # provider url -> Lazy outcome
ANS = {}        # provider url -> callable(method, args) -> answer
CALLS = []      # (url, method, args) in call order


class PlainError(Exception):
    """an exception without .msg (requests/timeouts/json errors look like this)"""


METHODS = ('getdata', 'getbalance', 'getutxos', 'gettransaction', 'gettransactions', 'getrawtransaction',
           'sendrawtransaction', 'estimatefee', 'blockcount', 'mempool', 'isspent')


class FakeClient:
    """A provider client.  Its behaviour is looked up in OUT only when the Service layer actually touches it (hasattr /
    the call), so a provider that is never consulted costs no case split."""
    def __init__(self, network, url, denominator, api_key, coin, overrides, timeout, blockcount, strict, wallet_name):
        self.name = url
        # decided here (the client is constructed when, and only when, the provider is consulted): CrossHair evaluates
        # hasattr() outside its tracer, so __getattr__ must not compare symbolic values
        self.nomethod = OUT[url].get() == NO_METHOD

    def __getattr__(self, method):
        if method not in METHODS or self.nomethod:
            raise AttributeError(method)            # hasattr(client, method) is False
        return lambda *args: self._do(method, args)

    def _do(self, method, args):
        CALLS.append((self.name, method, args))
        o = OUT[self.name].get()
        if o == ANSWER:
            return ANS[self.name](method, args)
        if o == RAISE_SVC:
            raise BC.ClientError("provider down")
        if o == EMPTY:
            return False
        if o == RAISE_PLAIN:
            raise PlainError("timeout")
        raise AttributeError("method not supported")


class FakeMod:
    FakeClient = FakeClient


class NullLog:
    def __getattr__(self, n):
        return lambda *a, **k: None


class _Delta:
    def total_seconds(self):
        return 0.0


class _Instant:
    """a frozen clock reading (a real datetime object would be modelled symbolically by CrossHair, at 4 ms apiece)"""
    def __sub__(self, other):
        return _DELTA


_DELTA = _Delta()
_NOW = _Instant()


class FakeDT:
    @staticmethod
    def now():
        return _NOW


class FakeTime:
    @staticmethod
    def time():
        return 1600000000.0


class Rnd:
    """random.random() constant (priorities are strict, so it never decides); shuffle() = reverse"""
    def random(self):
        return 0.5

    def shuffle(self, lst):
        lst.reverse()


_saved = []
_NULLLOG = NullLog()
_RND = Rnd()


def install():
    """module-global stubbing; undone by restore() in the finally block of every condition"""
    _saved.append((SV._logger, SV.datetime, SV.random, SV.time, BC._logger, getattr(SP, 'c20fake', None)))
    SV._logger = _NULLLOG
    BC._logger = _NULLLOG
    SV.datetime = FakeDT
    SV.random = _RND
    SV.time = FakeTime
    SP.c20fake = FakeMod
    OUT.clear()
    ANS.clear()
    del CALLS[:]


def restore():
    SV._logger, SV.datetime, SV.random, SV.time, BC._logger, fake = _saved.pop()
    if fake is None:
        del SP.c20fake
    else:
        SP.c20fake = fake
    OUT.clear()
    ANS.clear()
    del CALLS[:]


URLS = ['u0', 'u1', 'u2', 'u3']
NAMES = ['prov0', 'prov1', 'prov2', 'prov3']


def url(i):
    return URLS[i]


def make_service(outs, prios, max_errors, max_providers, min_providers=1, network=NET_TEST, cache=None,
                 ignore_priority=False, need_key=()):
    """a Service object as __init__ would leave it, with len(outs) fake providers (outs: list of Lazy, prios: list of
    concrete or symbolic ints); providers whose index is in
    need_key are configured with the placeholder api key 'api-key-needed'"""
    k = len(outs)
    for i in range(k):
        OUT[URLS[i]] = outs[i]
    srv = SV.Service.__new__(SV.Service)
    srv.network = network
    srv.providers = {}
    for i in range(k):
        srv.providers[NAMES[i]] = {
            'provider': 'c20fake', 'client_class': 'FakeClient', 'url': URLS[i], 'denominator': 1,
            'api_key': 'api-key-needed' if i in need_key else '', 'provider_coin_id': '', 'network_overrides': None,
            'priority': prios[i], 'network': network.name}      # (a dict literal: dict(...) costs 10 ms under CrossHair)
    srv.min_providers = min_providers
    srv.max_providers = max_providers
    srv.max_errors = max_errors
    srv.ignore_priority = ignore_priority
    srv.timeout = 5
    srv._blockcount = None
    srv._blockcount_update = 0
    srv.strict = True
    srv.wallet_name = None
    srv.results = {}
    srv.errors = {}
    srv.resultcount = 0
    srv.results_cache_n = 0
    srv.complete = None
    srv.execution_time = None
    srv.cache = cache
    srv.cache_uri = None
    return srv


# ---- specification of the fail-over loop (written from the documented behaviour, independent of the code) ----------
# Providers are asked in descending priority.  A provider that cannot serve the method (SKIPPED, or no api key) is
# passed over.  A provider that raises or answers empty (FAILING) is an error.
#   MUST_OK     the first answering provider is preceded by fewer than max_errors errors: the call must return exactly
#               that provider's answer
#   FAIL_LIMIT  nobody answers before max_errors raising providers have been met, or nobody answers at all and at least
#               max_errors providers failed: the call must fail ("error limit reached")
#   FAIL_NONE   nobody answers, fewer than max_errors providers failed: the call must fail
#   MAY         the first answer is preceded by >= max_errors errors, but the limit is reached only by counting empty
#               answers: the property allows failure or success - a success must still be the first answering
#               provider's answer
# "fail" = ServiceError, or the documented False of _provider_execute.
MUST_OK, FAIL_LIMIT, FAIL_NONE, MAY = 1, 2, 3, 4
MUST_FAIL = (FAIL_LIMIT, FAIL_NONE)


def spec_failover(outs, order, max_errors, need_key=()):
    """-> (verdict, index of the first answering provider in `order` or None).  outs: list of Lazy, read in consult
    order and only as far as needed."""
    errors = 0
    raising = 0
    for i in order:
        if i in need_key:
            continue
        o = outs[i].get()
        if o == ANSWER:
            if errors < max_errors:
                return MUST_OK, i
            return MAY, i
        if o in FAILING:
            errors += 1
            if o != EMPTY:
                raising += 1
                if raising >= max_errors:
                    return FAIL_LIMIT, None
    return (FAIL_LIMIT if errors >= max_errors else FAIL_NONE), None


class Addr:
    """what Cache.getaddress returns (a DbCacheAddress row): only the columns Service reads"""
    def __init__(self, last_block, balance):
        self.last_block = last_block
        self.balance = balance
        self.n_txs = None
        self.n_utxos = None


class FakeCache:
    """Stands for bitcoinlib.services.services.Cache: every getter returns what the test put into the corresponding
    attribute (False / [] / None = miss, as the real class does), every store_* call is recorded in .stored."""
    def __init__(self):
        self.tx = None              # gettransaction
        self.rawtx = False          # getrawtransaction
        self.addr = {}              # address -> Addr
        self.txs = []               # gettransactions
        self.utxos = []             # getutxos
        self.fee = False            # estimatefee
        self.bc = False             # blockcount()
        self.bc_never = False       # blockcount(never_expires=True)
        self.stored = []
        self.queries = []

    def commit(self):
        pass

    def cache_enabled(self):
        return True

    def gettransaction(self, txid):
        self.queries.append(('gettransaction', txid))
        return self.tx

    def getrawtransaction(self, txid):
        self.queries.append(('getrawtransaction', txid))
        return self.rawtx

    def getaddress(self, address):
        return self.addr.get(address)

    def gettransactions(self, address, after_txid='', limit=20):
        self.queries.append(('gettransactions', address, after_txid, limit))
        return list(self.txs)

    def getutxos(self, address, after_txid=''):
        self.queries.append(('getutxos', address, after_txid))
        return list(self.utxos)

    def estimatefee(self, blocks):
        self.queries.append(('estimatefee', blocks))
        return self.fee

    def blockcount(self, never_expires=False):
        return self.bc_never if never_expires else self.bc

    def store_blockcount(self, blockcount):
        self.stored.append(('blockcount', blockcount))

    def store_transaction(self, t, index=None, commit=True):
        self.stored.append(('transaction', t))
        return True

    def store_utxo(self, txid, index_n, commit=True):
        self.stored.append(('utxo', txid, index_n))

    def store_address(self, address, last_block=None, balance=0, n_utxos=None, txs_complete=False, last_txid=None):
        self.stored.append(('address', address, balance))

    def store_estimated_fee(self, blocks, fee):
        self.stored.append(('fee', blocks, fee))


class FakeTx:
    """what a provider client's gettransaction(s) returns: a Transaction-like object (only the attributes the Service
    layer touches; inputs/outputs empty so transaction_update_spents has nothing to relabel)"""
    def __init__(self, txid, tag, confirmations=3, block_height=100):
        self.txid = txid
        self.tag = tag
        self.date = None
        self.confirmations = confirmations
        self.block_height = block_height
        self.inputs = []
        self.outputs = []


def txid_of(n):
    return '%064x' % n
