"""C03 - HD key derivation conforms to BIP32; public and private derivation agree.

Real code executed symbolically: HDKey.child_private, HDKey.child_public, HDKey.subkey_for_path,
HDKey._key_derivation, HDKey.fingerprint, HDKey.from_seed (call shape).

Abstractions (assumptions): secp256k1 is the generic cyclic group of order n - a point is represented by its discrete
log; HMAC-SHA512 and hash160 / point serialisation are uninterpreted functional symbols.  The HDKey constructor
(which calls C code) is replaced by a recording subclass that applies the group model."""
import z3
from symx import core, shims, stubs
from symx.core import SBytes, SInt, SBool, s_and, s_or, s_not, s_ite, mk_bool, mk_int
from vtlib.api import Job, kf

PROPERTY = 'C03'
N = 0xFFFFFFFFFFFFFFFFFFFFFFFFFFFFFFFEBAAEDCE6AF48A03BBFD25E8CD0364141
ASSUMPTIONS = [
    'secp256k1 modelled as the generic cyclic group of order n: a point is its discrete log, P<a>+P<b> = P<a+b mod n>; point serialisation and y-parity are uninterpreted functions of the log',
    'HMAC-SHA512 and hash160 are uninterpreted functional symbols; the obligation compares the HMAC key and data BYTES with BIP32',
    'HDKey(...) construction of the child (C code: point multiplication, formats) is replaced by a recording subclass that stores the fields it is given',
]
BOUNDS = {'quick': 'every derivation also after an earlier address_uncompressed() call on the parent object; a second parent with the same key and another chain code deriving the same child number (nothing remembered); all parent secrets in [1, n-1], all chain codes, all indices 0..2^32+1, hardened flag, all five hardened markers, paths of 1 level from a private and from a public parent with m/, M/ and no prefix',
          'thorough': 'as quick plus paths of 2 levels (private parent with m/ and M/ prefix, public parent), markers {none, \', H} x {none, \'}'}
OUTSIDE = 'that fastecdsa computes the real curve and HMAC; seeds -> master key beyond the HMAC call shape; depth > 3 (each level is the same code: one inductive step is checked from an arbitrary parent)'
W = 272


def _mods():
    import bitcoinlib.keys as K
    return K


_S = {}


class Coord:
    """x or y coordinate of the point with discrete log `log` (never inspected numerically except parity)"""

    def __init__(self, log, which):
        self.log, self.which = log, which

    def __mod__(self, m):
        if m == 2 and self.which == 'y':
            return s_ite(_parity(self.log), 1, 0)
        raise core.EngineLimit("numeric use of a point coordinate")


def _parity(log):
    """uninterpreted y-parity of P<log>"""
    f = z3.Function('ypar', z3.BitVecSort(W), z3.BoolSort())
    return mk_bool(f(core._bv(log, W)))


class GP:
    """group element P<log>"""

    def __init__(self, log):
        self.log = log

    def __add__(self, o):
        return GP((self.log + o.log) % N)

    @property
    def x(self):
        return Coord(self.log, 'x')

    @property
    def y(self):
        return Coord(self.log, 'y')


class HexX:
    def __init__(self, log):
        self.log = log

    def __radd__(self, prefix):
        return PubHex(prefix, self.log)


class PubHex:
    def __init__(self, prefix, log):
        self.prefix, self.log = prefix, log

    def __symx_fromhex__(self):
        return PubKeyBytes(self.prefix, self.log)


class PubKeyBytes:
    """compressed public key bytes of P<log> as built by child_public: prefix chosen by the library + x"""

    def __init__(self, prefix, log):
        self.prefix, self.log = prefix, log

    def __bool__(self):
        return True


_CONCRETE = [False]


def ser_point(log):
    """serP(P<log>): 33 uninterpreted bytes, injective in log (symbolic) / the real compressed point (replay)"""
    if _CONCRETE[0]:
        from ref import secp
        return secp.ser(secp.mul(log))
    return _S['ser'](log.to_bytes(32, 'big') if isinstance(log, SInt) else int(log).to_bytes(32, 'big'))


def h160_of(pubbytes):
    return _S['h160'](pubbytes)


class _Net:
    name = 'bitcoin'


def make_fake(K):
    class FakeHD(K.HDKey):
        """records the fields the library passes to HDKey(...) and applies the group model"""

        def __init__(self, import_key=None, key=None, chain=None, depth=0, parent_fingerprint=b'\0\0\0\0', child_index=0,
                     is_private=True, network=None, key_type='bip32', password='', compressed=True, encoding=None,
                     witness_type=None, multisig=False):
            self.rec = dict(key=key, chain=chain, depth=depth, parent_fingerprint=parent_fingerprint,
                            child_index=child_index, is_private=is_private)
            self.is_private = is_private
            self.chain, self.depth, self.parent_fingerprint, self.child_index = chain, depth, parent_fingerprint, child_index
            self.key_type, self.witness_type, self.multisig, self.encoding = key_type, witness_type, multisig, encoding
            self.network = _Net()
            self.compressed = True
            self.prefix_chosen = None
            if is_private:
                self.private_byte = key
                self.secret = shims.IntShim.from_bytes(key, 'big')
                self.log = self.secret
            else:
                if not isinstance(key, PubKeyBytes):
                    raise core.HarnessError("public child built from unexpected key material %r" % (key,))
                self.private_byte, self.secret = None, None
                self.log = key.log
                self.prefix_chosen = key.prefix
            self.public_byte = self.public_compressed_byte = ser_point(self.log)
            self._public_uncompressed_byte = b'\x04' + self.public_byte[1:] + _S['ser'](b'y-of' + self.public_byte)[:32]
            self._public_uncompressed_hex = 'set'
            self._hash160 = None          # (the real hash160 property computes it - from the serialization the flag selects)
            self._address_obj = None
            self._x, self._y = Coord(self.log, 'x'), Coord(self.log, 'y')
            self.x_hex = self.y_hex = None
    return FakeHD


class _FakeHmacObj:
    def __init__(self, d):
        self.d = d

    def digest(self):
        return self.d


class _FakeHmac:
    calls = []

    @staticmethod
    def new(key, msg, digestmod=None):
        key = SBytes.lift(key) if not isinstance(key, SBytes) else key
        msg = SBytes.lift(msg) if not isinstance(msg, SBytes) else msg
        out = _S['hmac'](SBytes([len(key)]) + key + msg)
        _FakeHmac.calls.append((key, msg))
        return _FakeHmacObj(out)


class _FakePointMod:
    @staticmethod
    def Point(x, y, curve):
        if not isinstance(x, Coord) or not isinstance(y, Coord) or x.log is not y.log:
            raise core.HarnessError("Point() built from foreign coordinates")
        return GP(x.log)


def setup(ex):
    K = _mods()
    import bitcoinlib.encoding as E
    shims.install(K, int=shims.IntShim, bytes=_BytesShimHex, str=shims.StrShim)
    shims.install(E, int=shims.IntShim, bytes=shims.BytesShim)
    _S.clear()
    _S.update(ser=stubs.HashStub('serP', 33), h160=stubs.HashStub('h160', 20), hmac=stubs.HashStub('hmac', 64))
    ex.axiom_sources = list(_S.values())
    Fake = make_fake(K)
    _S['Fake'] = Fake
    shims.install(K, HDKey=Fake, hmac=_FakeHmac, ec_point=lambda m: GP(m), fastecdsa_point=_FakePointMod,
                  change_base=_change_base_stub(K.change_base), _logger=_NullLog(), hash160=h160_of, Address=_NoAddress)


class _NullLog:
    def __getattr__(self, n):
        return lambda *a, **k: None


class _NoAddress:
    """the address text is not part of C03 (C04 / C05): a recording stand-in"""
    def __init__(self, data='', **k):
        self.data, self.address, self.prefix, self.encoding, self.script_type = data, 'address-not-modelled', k.get('prefix'), k.get('encoding'), k.get('script_type')


def _change_base_stub(real):
    def cb(chars, base_from, base_to, min_length=0, output_even=None, output_as_list=None):
        if isinstance(chars, Coord):
            if chars.which == 'x' and (base_from, base_to, min_length) == (10, 16, 64):
                return HexX(chars.log)
            raise core.EngineLimit("change_base of a coordinate in an unexpected way")
        return real(chars, base_from, base_to, min_length, output_even, output_as_list)
    return cb


class _BytesMeta(type(shims.BytesShim)):
    pass


class _BytesShimHex(shims.BytesShim, metaclass=_BytesMeta):
    @staticmethod
    def fromhex(x):
        if hasattr(x, '__symx_fromhex__'):
            return x.__symx_fromhex__()
        return shims.BytesShim.fromhex(x)


def mk_parent(ex, K, private, name='par'):
    """an arbitrary extended key (one inductive step starts from any valid parent)"""
    _CONCRETE[0] = ex.concrete
    chain = ex.bytes(name + '_chain', 32)
    depth = ex.int(name + '_depth', 0, 254)
    k = ex.int(name + '_secret', 1, N - 1)
    if ex.concrete:
        _FakeHmac.calls = None
        if private:
            p = K.HDKey(key=k.to_bytes(32, 'big'), chain=chain, depth=depth, is_private=True)
        else:
            p = K.HDKey(key=ser_point(k), chain=chain, depth=depth, is_private=False)
        return p, k, chain, depth
    Fake = _S['Fake']
    if private:
        p = Fake(key=k.to_bytes(32, 'big'), chain=chain, depth=depth, is_private=True)
    else:
        p = Fake(key=PubKeyBytes('02', k), chain=chain, depth=depth, is_private=False)
    return p, k, chain, depth


def _eq(a, b):
    if len(a) != len(b):
        return False
    return a == b


def _IL_IR(key, data):
    if _CONCRETE[0]:
        import hmac as _hm
        import hashlib
        out = _hm.new(bytes(key), bytes(data), hashlib.sha512).digest()
        return int.from_bytes(out[:32], 'big'), out[32:]
    out = _S['hmac'](SBytes([len(key)]) + SBytes.lift(key) + SBytes.lift(data))
    return shims.IntShim.from_bytes(out[:32], 'big'), out[32:]


def _fingerprint(ex, par):
    """BIP32 key identifier: HASH160 of the compressed public key serialization - independent of earlier calls"""
    if ex.concrete:
        import hashlib
        return hashlib.new('ripemd160', hashlib.sha256(bytes(par.public_compressed_byte)).digest()).digest()[:4]
    return h160_of(par.public_compressed_byte)[:4]


def _prior_call(ex, K, par):
    """an earlier, unrelated call on the parent object (call histories): asking for its uncompressed address"""
    if ex.choose('earlier_call_on_parent', ['none', 'address_uncompressed()']) != 'none':
        K.Key.address(par, compressed=False, encoding='base58', script_type='p2pkh')


def fld(child, name):
    return child.rec[name] if hasattr(child, 'rec') else getattr(child, name)


def hmac_called_with(ex, key, data):
    if ex.concrete:
        return True          # data flow into the HMAC is observable only under the stub; replay compares results
    return len(_FakeHmac.calls) == 1 and _eq(_FakeHmac.calls[0][0], key) and _eq(_FakeHmac.calls[0][1], data)


def same_point(child, log):
    return _eq(child.public_byte, ser_point(log))


def h_ckd_private(ex, twice=False):
    """CKDpriv.  With twice=True a second parent with the SAME private key but another chain code (a bare key imported
    as HDKey next to the real extended key) derives the same child number afterwards: its child must follow from its
    own chain code - nothing may be remembered from the first derivation"""
    K = _mods()
    par, k, chain, depth = mk_parent(ex, K, True)
    index = ex.int('index', 0, 2 ** 32 + 1)
    hardened = ex.bool('hardened')
    hard = bool(hardened)
    _prior_call(ex, K, par)
    _ckd_private_once(ex, K, par, k, chain, depth, index, hard, '')
    if twice:
        core.HASH_BY_VALUE = True
        chain2 = ex.bytes('second_parent_chain', 32)
        if ex.concrete:
            par2 = K.HDKey(key=k.to_bytes(32, 'big'), chain=chain2, depth=depth, is_private=True)
        else:
            par2 = _S['Fake'](key=k.to_bytes(32, 'big'), chain=chain2, depth=depth, is_private=True)
        _ckd_private_once(ex, K, par2, k, chain2, depth, index, hard, '-second-parent')


def _ckd_private_once(ex, K, par, k, chain, depth, index, hard, tag):
    _FakeHmac.calls = [] if not ex.concrete else None
    try:
        child = par.child_private(index=index, hardened=hard)
    except K.BKeyError:
        refused = True
    except OverflowError:
        # index does not fit 4 bytes
        ex.check(s_or(index >= 2 ** 32, s_and(hard, False)), 'ckdpriv-overflow-only-above-2^32' + tag)
        return True
    else:
        refused = False
    # BIP32 CKDpriv
    is_hard = s_or(hard, index >= 2 ** 31)
    i_eff = index if not hard else (index | 0x80000000)
    if bool(is_hard):
        data = b'\x00' + k.to_bytes(32, 'big') + i_eff.to_bytes(4, 'big')
    else:
        data = par.public_byte + i_eff.to_bytes(4, 'big')
    IL, IR = _IL_IR(chain, data)
    if IL >= N:                      # BIP32: invalid, proceed with the next index
        ex.check(refused, 'ckdpriv-IL-ge-n-refused' + tag)
        return True
    newk = (IL + k) % N
    if refused:
        ex.check(newk == 0, 'ckdpriv-refuses-only-invalid-IL' + tag)
        return True
    ex.check(newk != 0, 'ckdpriv-zero-child-refused' + tag)
    ex.check(hmac_called_with(ex, chain, data), 'ckdpriv-hmac-key-and-data-per-bip32' + tag)
    ex.check(child.secret == newk, 'ckdpriv-child-scalar' + tag)
    ex.check(_eq(fld(child, 'chain'), IR), 'ckdpriv-child-chain' + tag)
    ex.check(fld(child, 'depth') == depth + 1, 'ckdpriv-depth' + tag)
    ex.check(fld(child, 'child_index') == i_eff, 'ckdpriv-child-number' + tag)
    ex.check(_eq(fld(child, 'parent_fingerprint'), _fingerprint(ex, par)), 'ckdpriv-parent-fingerprint' + tag)
    ex.check(fld(child, 'is_private') is True, 'ckdpriv-is-private' + tag)


def h_ckd_public(ex):
    K = _mods()
    priv_parent = ex.choose('parent', ['public', 'private'])
    par, k, chain, depth = mk_parent(ex, K, priv_parent == 'private')
    index = ex.int('index', 0, 2 ** 32 + 1)
    _prior_call(ex, K, par)
    _FakeHmac.calls = []
    try:
        child = par.child_public(index=index)
    except K.BKeyError:
        refused = True
    else:
        refused = False
    if index >= 2 ** 31:
        ex.check(refused, 'ckdpub-hardened-index-refused')
        return
    data = par.public_byte + index.to_bytes(4, 'big')
    IL, IR = _IL_IR(chain, data)
    if IL >= N:
        ex.check(refused, 'ckdpub-IL-ge-n-refused')
        return
    clog = (IL + k) % N
    if refused:
        ex.check(clog == 0, 'ckdpub-refuses-only-invalid-IL')
        return
    ex.check(clog != 0, 'ckdpub-point-at-infinity-refused', known=kf('C03-ckdpub-point-at-infinity-accepted', clog == 0))
    ex.check(hmac_called_with(ex, chain, data), 'ckdpub-hmac-key-and-data-per-bip32')
    ex.check(same_point(child, clog), 'ckdpub-child-point')
    if not ex.concrete:
        ex.check((child.prefix_chosen == '03') == bool(_parity(clog)), 'ckdpub-prefix-matches-y-parity')
    ex.check(_eq(fld(child, 'chain'), IR), 'ckdpub-child-chain')
    ex.check(fld(child, 'depth') == depth + 1, 'ckdpub-depth')
    ex.check(fld(child, 'child_index') == index, 'ckdpub-child-number')
    ex.check(_eq(fld(child, 'parent_fingerprint'), _fingerprint(ex, par)), 'ckdpub-parent-fingerprint')
    ex.check(fld(child, 'is_private') is False, 'ckdpub-is-public')


def h_commute(ex):
    """N(CKDpriv(k, i)) == CKDpub(N(k), i) for every non-hardened i: same point, same chain code"""
    K = _mods()
    par, k, chain, depth = mk_parent(ex, K, True)
    index = ex.int('index', 0, 2 ** 31 - 1)
    try:
        c1 = par.child_private(index=index, hardened=False)
        r1 = False
    except K.BKeyError:
        r1 = True
    if ex.concrete:
        pub = K.HDKey(key=par.public_byte, chain=chain, depth=depth, is_private=False)
    else:
        pub = _S['Fake'](key=PubKeyBytes('02', k), chain=chain, depth=depth, is_private=False)
    ex.check(_eq(pub.public_byte, par.public_byte), 'model-public-twin-has-same-serialisation')
    try:
        c2 = pub.child_public(index=index)
        r2 = False
    except K.BKeyError:
        r2 = True
    if r1 or r2:
        ex.check(r1 == r2, 'commute-same-refusal', known=kf('C03-ckdpub-point-at-infinity-accepted', r1 and not r2))
        return
    ex.check(_eq(c1.public_byte, c2.public_byte), 'commute-same-point')
    ex.check(_eq(fld(c1, 'chain'), fld(c2, 'chain')), 'commute-same-chain')
    ex.check(s_and(fld(c1, 'depth') == fld(c2, 'depth'), fld(c1, 'child_index') == fld(c2, 'child_index'),
                   _eq(fld(c1, 'parent_fingerprint'), fld(c2, 'parent_fingerprint'))), 'commute-same-metadata')


MARKERS = ['', "'", 'h', 'H', 'p', 'P']


def _ref_ckd(node, index, hardened):
    """reference CKD on the abstract model: node = (is_private, log, chain, depth, pubbytes); returns node or None
    (=must be refused)"""
    is_private, log, chain, depth, pub = node
    if hardened:
        if not is_private:
            return 'refuse'
        data = b'\x00' + log.to_bytes(32, 'big') + (index | 0x80000000).to_bytes(4, 'big')
    else:
        data = pub + index.to_bytes(4, 'big')
    IL, IR = _IL_IR(chain, data)
    if IL >= N:
        return None, True
    nl = (IL + log) % N
    return (is_private, nl, IR, depth + 1, ser_point(nl)), nl == 0


def h_path(ex, levels, parents=('private', 'public'), prefixes=('none', 'm', 'M'), digits=(0, 7)):
    """subkey_for_path over `levels` path items with symbolic indices and every hardened-marker spelling, from a
    private or a public parent, with 'm' / 'M' / no prefix: the result is the iterated BIP32 derivation; a hardened
    item below a public key is refused"""
    K = _mods()
    priv = ex.choose('parent', list(parents))
    par, k, chain, depth = mk_parent(ex, K, priv == 'private')
    prefix = ex.choose('prefix', list(prefixes))
    items, spec = [], []
    for lv in range(levels):
        idx = ex.int('i%d' % lv, 0, 2 ** 31 - 1)
        mk = ex.choose('marker%d' % lv, MARKERS)
        items.append(shims.SDecStr(idx, mk) if not ex.concrete else (str(idx) + mk))
        spec.append((idx, mk != ''))
    path = ([] if prefix == 'none' else [prefix]) + items
    try:
        res = par.subkey_for_path(path)
        refused = False
    except K.BKeyError:
        refused = True
    node = (priv == 'private', k, chain, depth, par.public_byte)
    force_public = prefix == 'M'
    must_refuse = False
    invalid = False
    for n_, (idx, hard) in enumerate(spec):
        is_private = node[0] and not (force_public and n_ == 0)
        if hard and not is_private:
            must_refuse = True
            break
        if is_private:
            nxt, bad = _ref_ckd((True,) + node[1:], idx, hard)
        else:
            nxt, bad = _ref_ckd((False,) + node[1:], idx, False)
        invalid = s_or(invalid, bad)
        if nxt is None:
            break
        node = nxt
    if must_refuse:
        ex.check(refused, 'path-hardened-from-public-refused')
        return
    if refused:
        ex.check(invalid, 'path-refuses-only-invalid-IL')
        return
    ex.check(s_or(invalid, s_and(same_point(res, node[1]), _eq(res.chain, node[2]), res.depth == node[3])), 'path-result-is-iterated-ckd',
             known=kf('C03-ckdpub-point-at-infinity-accepted', invalid))
    ex.check(res.is_private == node[0], 'path-private-public-kind')


def h_from_seed(ex):
    """HDKey.from_seed: HMAC key is 'Bitcoin seed', data is the seed, master secret/chain are I_L/I_R, I_L >= n refused"""
    K = _mods()
    ln = ex.choose('seedlen', [16, 32, 64])
    seed = ex.bytes('seed', ln)
    _CONCRETE[0] = ex.concrete
    _FakeHmac.calls = []
    try:
        m = K.HDKey.from_seed(seed)
        refused = False
    except K.BKeyError:
        refused = True
    IL, IR = _IL_IR(b'Bitcoin seed', seed)
    # listed finding: to_bytes() hex-decodes a seed that consists of ASCII hex digits only
    def ishex(c):
        return s_or(s_and(c >= 48, c <= 57), s_and(c >= 97, c <= 102), s_and(c >= 65, c <= 70))
    allhex = s_and(*[ishex(c) for c in seed])
    if bool(allhex):
        ex.check(False, 'seed-used-verbatim', known=kf('C03-seed-of-ascii-hex-digits-is-hex-decoded', True))
        return
    if refused:
        ex.check(IL >= N, 'seed-refuses-only-IL-ge-n')
        return
    ex.check(IL < N, 'seed-IL-ge-n-refused')
    ex.check(m.secret == IL, 'seed-master-secret')
    ex.check(_eq(fld(m, 'chain'), IR), 'seed-master-chain')
    ex.check(fld(m, 'depth') == 0 and fld(m, 'child_index') == 0 and fld(m, 'parent_fingerprint') == b'\0\0\0\0', 'seed-master-metadata')


def jobs(tier):
    q = tier == 'quick'
    J = [Job('ckd_private', h_ckd_private, W=W, setup=setup, budget_s=1500),
         Job('ckd_private_two_parents', h_ckd_private, W=W, setup=setup, budget_s=1500, params=dict(twice=True)),
         Job('ckd_public', h_ckd_public, W=W, setup=setup, budget_s=1500),
         Job('commute', h_commute, W=W, setup=setup, budget_s=1500),
         Job('from_seed', h_from_seed, W=W, setup=setup, budget_s=1500)]
    J.append(Job('path_1', h_path, W=W, setup=setup, params=dict(levels=1), budget_s=3000))
    for par in (() if q else ('private', 'public')):
        for pre in (('m', 'M') if par == 'private' else ('none',)):
            J.append(Job('path_2_%s_%s' % (par, pre), h_path, W=W, setup=setup, budget_s=3000,
                         params=dict(levels=2, parents=(par,), prefixes=(pre,), digits=(7,))))
    return J
