"""C09, database-backed part: which account / chain / address index the real Wallet.new_keys asks for.

Real code executed symbolically (symx, linear integer arithmetic): Wallet._get_account_defaults and Wallet.new_keys up to
their call of keys_for_path (recorded and stopped there: key derivation and persistence follow).  The database is the
symx.sqlmini stand-in: the filter_by / order_by / first expressions the library builds are evaluated over key rows whose
address_index / account / change columns are symbolic and whose insertion order (row id) is unrelated to the index."""
from symx import core, shims, lia, sqlmini
from symx.core import s_and, s_or, s_not
from vtlib.api import Job

MAXI = 2 ** 31 - 2


class _Stop(Exception):
    pass


def setup(ex):
    import bitcoinlib.wallets as WL
    from harness import c12
    shims.install(WL, int=lia.IntShimL, _logger=c12.NullLog(), logger=c12.NullLog())


def _wallet(ex, key_rows, default_account):
    import bitcoinlib.wallets as WL
    wrow = sqlmini.Row(id=1, name='w', owner='', network_name='bitcoin', purpose=84, scheme='bip32', main_key_id=None, default_account_id=default_account,
                       multisig_n_required=1, sort_keys=False, witness_type='segwit', encoding='bech32', multisig=False, cosigner_id=None,
                       key_path="m/purpose'/coin_type'/account'/change/address_index", parent_id=None, anti_fee_sniping=False)
    accs = [sqlmini.Row(id=100 + a, wallet_id=1, purpose=84, depth=3, network_name='bitcoin', account_id=a, witness_type='segwit', change=0,
                        cosigner_id=None, address_index=0, wallet=wrow) for a in (0, 1, 2)]
    session = sqlmini.Session({'wallets': [wrow], 'keys': accs + key_rows})
    real_query = session.query

    def query(*ents):
        q = real_query(*ents)
        if q.table == 'wallets' and len(ents) == 1:
            class _W(sqlmini.Query):
                def filter(self, *a):
                    return sqlmini.Query(self.session, 'wallets', [])
            return _W(session, 'wallets', [wrow])
        return q
    session.query = query
    return WL.Wallet(1, session=session)


def _real_wallet(ex, rows, default_account):
    """replay: a real sqlite wallet; keys are created in the recorded insertion order with the recorded indices"""
    import tempfile
    from bitcoinlib.wallets import Wallet
    d = tempfile.mkdtemp(prefix='c09w')
    w = Wallet.create('w', network='bitcoin', witness_type='segwit', db_uri='sqlite:///%s/w.db' % d)
    for a in (1, 2):
        w.new_account(account_id=a)
    for r in rows:
        w.key_for_path([r['change'], r['address_index']], account_id=r['account_id'])
    if default_account:
        w.default_account_id = default_account
    return w, d


def h_index_issuance(ex, n):
    """new_keys(account_id=A, change=C): the index asked for is one more than the HIGHEST index already present on that
    chain (account, change, witness type, network), whatever the order in which the keys were created - so no index is
    issued twice; the account and chain asked for are the ones named (or the wallet's default account)"""
    import bitcoinlib.wallets as WL
    default_account = ex.choose('default_account', [0, 1])
    acc_arg = ex.choose('account_id', [None, 0, 1])
    change = ex.choose('change', [0, 1])
    rows = []
    for i in range(n):
        rows.append(dict(account_id=ex.choose('row%d_account' % i, [0, 1]), change=ex.choose('row%d_change' % i, [0, 1]),
                         address_index=ex.lint('row%d_index' % i, 0, MAXI if not ex.concrete else 40)))
    if ex.concrete:
        # (derivation cost: the recorded indices are replaced by their ranks - order and equality are what matters)
        rank = {v: 3 * k + 2 for k, v in enumerate(sorted(set(int(r['address_index']) for r in rows)))}
        rows = [dict(r, address_index=rank[int(r['address_index'])]) for r in rows]
        w, scratch = _real_wallet(ex, rows, default_account)
    else:
        scratch = None
        krows = [sqlmini.Row(id=10 + i, wallet_id=1, purpose=84, depth=5, network_name='bitcoin', witness_type='segwit', cosigner_id=None,
                             wallet=None, **r) for i, r in enumerate(rows)]
        w = _wallet(ex, krows, default_account)
    seen = {}

    def spy(path, **kw):
        seen.update(kw)
        raise _Stop()
    w.keys_for_path = spy
    try:
        try:
            w.new_keys(account_id=acc_arg, change=change)
        except _Stop:
            pass
        want_acc = default_account if acc_arg is None else acc_arg
        ex.check(seen.get('account_id') == want_acc, 'new-key-uses-the-named-account-or-the-default')
        ex.check(seen.get('change') == change, 'new-key-uses-the-named-chain')
        if ex.concrete:
            # (the real wallet also holds the index-0 keys its account creation made: read the chain from the database)
            chain = [k.address_index for k in w.keys(account_id=want_acc, change=change, depth=5)]
        else:
            chain = [r['address_index'] for r in rows if r['account_id'] == want_acc and r['change'] == change]
        idx = seen.get('address_index')
        if not chain:
            ex.check(idx == 0, 'first-index-of-a-chain-is-zero')
        else:
            ex.check(s_and(*[idx > v for v in chain]), 'new-index-is-above-every-issued-index')
            ex.check(s_or(*[idx == v + 1 for v in chain]), 'new-index-leaves-no-gap')
    finally:
        if scratch:
            try:
                w.session.close()
            except Exception:
                pass
            __import__('shutil').rmtree(scratch, ignore_errors=True)


def jobs(tier):
    return [Job('sx_index_issuance_%dkeys' % n, h_index_issuance, W=8, setup=setup, params=dict(n=n), budget_s=1500)
            for n in ([0, 1, 2] if tier == 'quick' else [0, 1, 2, 3])]
