"""C11 - checksummed text encodings are canonical and corruption is rejected.

Real code executed symbolically: encoding._bech32_polymod (loop-step lemma), addr_bech32_to_pubkeyhash,
pubkeyhash_to_addr_bech32, convertbits, _codestring_to_array, _array_to_codestring; addr_base58_to_pubkeyhash,
keys.deserialize_address (base58 and bech32 routes).  The base58 digit layer (change_base / base58encode) is an
inverse-pair stub in the Base58Check obligations."""
import ast
import inspect
import textwrap
import z3
from symx import core, shims, stubs
from symx.core import SBytes, SInt, SStr, SChar, SymTable, SBool, s_and, s_or, s_not, mk_int
from vtlib.api import Job, kf
from ref import bech32 as rb

PROPERTY = 'C11'
ASSUMPTIONS = [
    '_bech32_polymod: its loop body, extracted from the current source with ast/inspect, is proved equal to one step of the reference fold from an ARBITRARY 30-bit state (step lemma); the harnesses that call it run with the branch-free reference fold substituted (induction: same init, same step => same fold)',
    'Base58Check obligations: change_base(.,58,256) / base58encode are an inverse pair of uninterpreted symbols (the decoded byte string is arbitrary); the checksum hash is uninterpreted and collision-free',
    'characters are arbitrary 8-bit code points',
]
BOUNDS = {'quick': "bech32 decoder: every string 'bc1' + 11 or 14 arbitrary characters and every string of 8 arbitrary characters; encoder: every program of 20 and 32 bytes for witness versions 0, 1, 16 and every 2..4-byte program for versions 1..16, hrp bc/tb/ltc; Base58Check: every decoded byte string of 24..26 bytes; address-level decoders (deserialize_address, addr_base58_to_pubkeyhash) on strings whose canonical decoding has 23..26 bytes, including the digit layer's left padding; the WIF / extended-key envelopes of the C12 harness",
          'thorough': "decoder: 'bc1' + 11..14 characters, 'tb1' + 11, 9 fully arbitrary characters; encoder: all witness versions 0..16"}
OUTSIDE = 'the base58 digit arithmetic itself (change_base digit loops fork on every character); bech32 strings longer than the bound with fully symbolic content; BIP38 envelopes (see C15)'


def _mods():
    import bitcoinlib.encoding as E
    import bitcoinlib.keys as K
    return E, K


def extract_step(fn, state_var, elem_var):
    """fn must have the shape: <inits>; for <elem_var> in <arg>: BODY; return <state_var>"""
    src = textwrap.dedent(inspect.getsource(fn))
    f = ast.parse(src).body[0]
    body = [s for s in f.body if not (isinstance(s, ast.Expr) and isinstance(s.value, ast.Constant))]
    loops = [s for s in body if isinstance(s, ast.For)]
    if not (len(loops) == 1 and isinstance(body[-1], ast.Return) and isinstance(body[-1].value, ast.Name) and body[-1].value.id == state_var):
        raise core.EngineLimit("unexpected shape of %s" % fn.__name__)
    loop = loops[0]
    if not (isinstance(loop.target, ast.Name) and loop.target.id == elem_var and not loop.orelse and body.index(loop) == len(body) - 2):
        raise core.EngineLimit("unexpected loop shape in %s" % fn.__name__)
    inits = body[:body.index(loop)]
    init_state = [s for s in inits if isinstance(s, ast.Assign) and s.targets[0].id == state_var]
    if len(init_state) != 1:
        raise core.EngineLimit("no single initialisation of %s" % state_var)
    others = [s for s in inits if s is not init_state[0]]
    step = ast.FunctionDef(name='step', args=ast.arguments(posonlyargs=[], args=[ast.arg(state_var), ast.arg(elem_var)], kwonlyargs=[], kw_defaults=[], defaults=[]),
                           body=others + loop.body + [ast.Return(ast.Name(state_var, ast.Load()))], decorator_list=[], type_params=[])
    mod = ast.Module(body=[step], type_ignores=[])
    ast.fix_missing_locations(mod)
    ns = dict(fn.__globals__)
    exec(compile(mod, '<step of %s>' % fn.__name__, 'exec'), ns)
    init_val = eval(compile(ast.Expression(init_state[0].value), '<init>', 'eval'), dict(fn.__globals__))
    return ns['step'], init_val


def setup_step(ex):
    E, K = _mods()
    shims.install(E, int=shims.IntShim, bytes=shims.BytesShim)


def h_polymod_step(ex):
    E, K = _mods()
    step, init = extract_step(E._bech32_polymod, 'chk', 'value')
    ex.check(init == 1, 'polymod-init-state')
    chk = ex.int('chk', 0, 2 ** 30 - 1)
    v = ex.int('v', 0, 31)
    out = step(chk, v)
    if ex.concrete:
        want = rb.polymod_step_concrete(chk, v)
        ex.check(out == want, 'polymod-step')
        return
    top = z3.LShR(chk.t, 25)
    c = ((chk.t & 0x1ffffff) << 5) ^ v.t
    for i in range(5):
        c = c ^ z3.If(z3.Extract(i, i, top) == 1, z3.BitVecVal(rb.GEN[i], chk.t.size()), z3.BitVecVal(0, chk.t.size()))
    ex.check(SBool(out.t == c) if isinstance(out, SInt) else False, 'polymod-step')
    ex.check(s_and(out >= 0, out < 2 ** 30), 'polymod-state-stays-30-bit')


def setup(ex):
    E, K = _mods()
    # the BCH checksum function is abstracted as ONE uninterpreted fold shared by the library and the reference (the
    # step lemma + induction identify the library's loop with the reference fold); what is checked is which values are
    # fed to it and how its result is used
    fold = stubs.FoldStub('polymod', 30)
    rb.POLYMOD[0] = fold
    shims.install(E, int=shims.IntShim, bytes=shims.BytesShim, ord=shims.ord_shim, chr=shims.chr_shim,
                  _bech32_polymod=rb.polymod)
    tab = dict(E.code_strings)
    tab['bech32'] = SymTable(E.code_strings['bech32'])
    shims.install(E, code_strings=tab, _array_to_codestring=_array_to_codestring_sym(E))
    _H.clear()
    _H['d'] = stubs.HashStub('dsha', 32)
    ex.axiom_sources = [_H['d'], fold]


_H = {}


def _array_to_codestring_sym(E):
    """`codestring += chr(...)` builds a real str; with symbolic elements the concatenation has to start from an SStr.
    Same loop, SStr accumulator (a shim for the str literal)."""
    def f(array, base):
        codebase = E.code_strings[base]
        cs = SStr([])
        for i in array:
            c = codebase[i]
            cs = cs + (SChar(c) if isinstance(c, SInt) else chr(c))
        return cs.lower_if_concrete()
    return f


def _lib_decode(E, s):
    try:
        out = E.addr_bech32_to_pubkeyhash(s, include_witver=True)
    except E.EncodingError:
        return None
    return out


def h_bech32_decode(ex, prefix, nsym):
    """the real decoder accepts exactly the strings BIP173/BIP350 accept, with the same witness version and program,
    and re-encoding an accepted string gives back its lower-case form"""
    E, K = _mods()
    sym = ex.text('s', nsym, 0, 255)
    s = SStr([ord(c) for c in prefix] + sym.c) if not ex.concrete else prefix + sym
    if ex.concrete:
        # The BCH fold is an uninterpreted symbol in the symbolic run, so a solver model fixes the VALUE of the checksum
        # test, not six matching characters.  The obligation is universal over strings: replay also tries the model's
        # string with its last six characters recomputed for either checksum constant - any failing string is a real
        # counterexample of the real code.
        for cand in [s] + _repaired(s):
            _decode_obligations(ex, E, cand)
        return
    _decode_obligations(ex, E, s)


def _repaired(s):
    low = s.lower()
    pos = low.rfind('1')
    if pos < 1 or pos + 7 > len(low):
        return []
    data = [rb.CHARSET.find(c) for c in low[pos + 1:-6]]
    if any(d < 0 for d in data) or any(ord(c) < 33 or ord(c) > 126 for c in low[:pos]):
        return []
    hrp = low[:pos]
    exp = [ord(c) >> 5 for c in hrp] + [0] + [ord(c) & 31 for c in hrp]
    out = []
    for const in (1, rb.BECH32M):
        pm = rb.polymod_formula(exp + data + [0] * 6) ^ const
        chk = ''.join(rb.CHARSET[(pm >> (5 * (5 - i))) & 31] for i in range(6))
        cand = s[:len(s) - 6] + (chk.upper() if s[:pos].isupper() else chk)
        out.append(cand)
    return out


def _decode_obligations(ex, E, s):
    out = _lib_decode(E, s)
    ref = rb.decode_segwit(s)
    if out is None or ref is None:
        ex.check((out is None) == (ref is None), 'accept-iff-bip173-accepts')
        return
    hrp, witver, prog = ref
    wb = out[0]
    lib_witver = wb if bool(wb == 0) else wb - 0x50
    ex.check(lib_witver == witver, 'same-witness-version')
    ex.check(out[1] == len(prog), 'length-byte')
    lp = out[2:]
    ex.check(len(lp) == len(prog) and s_and(*[a == b for a, b in zip(lp, prog)]), 'same-program')


def h_bech32_encode(ex, hrp, witvers, lens):
    """the real encoder produces the BIP173/350 address; the real decoder maps it back to (witver, program)"""
    E, K = _mods()
    witver = ex.choose('witver', witvers)
    ln = ex.choose('len', lens)
    prog = ex.bytes('prog', ln)
    if witver == 0 and ln not in (20, 32):
        ex.cut('version 0 programs are 20 or 32 bytes')
    arg = prog if ln in (20, 32, 40) else ((bytes([witver + 0x50 if witver else 0, ln]) + prog))
    try:
        addr = E.pubkeyhash_to_addr_bech32(arg, prefix=hrp, witver=witver)
    except (E.EncodingError, IndexError, ValueError):
        ex.check(False, 'encoder-accepts-valid-program', known=kf('C11-bech32-encoder-hex-decodes-program', _all_hex(prog)))
        return
    k_hex = kf('C11-bech32-encoder-hex-decodes-program', _all_hex(prog))
    want = rb.encode_segwit(hrp, witver, [b for b in prog])
    got = SStr.lift(addr)
    ex.check(len(got.c) == len(want) and s_and(*[(a == b) for a, b in zip(got.c, want)]), 'encoder-bip173', known=k_hex)


def h_ref_checksum_lemma(ex, witver, ndata):
    """lemma about the REFERENCE fold (concrete BCH formula, no abstraction): the checksum the BIP173/350 encoder
    appends makes the BIP173/350 verification succeed - polymod(hrp_exp + data + checksum(data)) == const for every
    data part.  Together with 'encoder == reference' and 'decoder == reference' this gives decode(encode(x)) == x."""
    rb.POLYMOD[0] = None
    data = [witver] + [ex.int('d%d' % i, 0, 31) for i in range(ndata)]
    hrp = 'bc'
    exp = [ord(c) >> 5 for c in hrp] + [0] + [ord(c) & 31 for c in hrp]
    const = 1 if witver == 0 else rb.BECH32M
    pm = rb.polymod_formula(exp + data + [0, 0, 0, 0, 0, 0]) ^ const
    chk = [(pm >> (5 * (5 - i))) & 31 for i in range(6)]
    ex.check(rb.polymod_formula(exp + data + chk) == const, 'reference-checksum-verifies')


def _all_hex(b):
    def ishex(c):
        return s_or(s_and(c >= 48, c <= 57), s_and(c >= 97, c <= 102), s_and(c >= 65, c <= 70))
    return s_and(*[ishex(c) for c in b])


def h_base58check_addr(ex):
    """addr_base58_to_pubkeyhash with the base58 digit layer as an arbitrary decoded byte string: accepted => length
    25 and checksum = first four bytes of the hash of the body; result = body without the version byte"""
    E, K = _mods()
    ln = ex.choose('decoded_len', [24, 25, 26])
    dec = ex.bytes('decoded', ln)
    H = _H['d'] if not ex.concrete else E.double_sha256
    if ex.concrete:
        addr = E.base58encode(dec)
        real = True
    else:
        shims.install(E, change_base=lambda chars, f, t, min_length=0, **k: dec, double_sha256=H)
        addr = 'opaque'
    try:
        out = E.addr_base58_to_pubkeyhash(addr)
        accepted = True
    except (E.EncodingError, AssertionError):
        accepted = False
    good = (ln == 25) and (H(dec[:-4])[:4] == dec[-4:])
    if accepted:
        ex.check(good, 'base58check-accepts-only-correct-checksum-and-length')
        ex.check(len(out) == 20 and out == dec[1:21], 'base58check-payload')
    else:
        ex.check(s_not(good), 'base58check-rejects-only-bad-strings')


def h_base58_address_routes(ex, route):
    """the address-level decoders (deserialize_address, Address.parse, addr_base58_to_pubkeyhash) on a Base58 string
    whose canonical decoding is an arbitrary byte string of 23..26 bytes: accepted only if that decoding has exactly
    25 bytes (version + 20 + checksum) with a correct checksum - a string with leading '1' characters missing or added,
    or with a longer payload, is not an address; the payload reported is bytes 1..20"""
    E, K = _mods()
    ln = ex.choose('decoded_len', [23, 24, 25, 26])
    dec = ex.bytes('decoded', ln)
    H = _H['d'] if not ex.concrete else E.double_sha256
    # the decoded bytes start with a documented base58 version byte of bitcoin (00 p2pkh / 05 p2sh) so that the network
    # lookup does not decide the outcome
    ex.assume(s_or(dec[0] == 0, dec[0] == 5))
    if ex.concrete:
        # the checksum hash is uninterpreted in the symbolic run: replay the model's bytes and the same bytes with the
        # real checksum of the body the library will look at (with and without its left padding to 25 bytes)
        d0 = bytes(dec)
        variants = [d0, d0[:-4] + E.double_sha256(d0[:-4])[:4]]
        if ln < 25:
            variants.append(d0[:-4] + E.double_sha256(b'\x00' * (25 - ln) + d0[:-4])[:4])
        for dv in variants:
            _base58_route_obligations(ex, E, K, route, dv, len(dv), E.base58encode(dv), E.double_sha256)
        return
    else:
        real_cb = _REALCB.setdefault('cb', E.change_base)

        def cb(chars, f, t, min_length=0, *a, **k):
            if chars == 'opaque-base58-string' and (f, t) == (58, 256):
                # the inverse-pair abstraction of the digit layer, INCLUDING its documented left padding to min_length
                pad = max(0, min_length - len(dec))
                return (b'\x00' * pad + dec) if pad else dec
            return real_cb(chars, f, t, min_length, *a, **k)
        shims.install(E, change_base=cb, double_sha256=H)
        shims.install(K, change_base=cb, double_sha256=H)
        addr = 'opaque-base58-string'
    _base58_route_obligations(ex, E, K, route, dec, ln, addr, H)


def _base58_route_obligations(ex, E, K, route, dec, ln, addr, H):
    try:
        if route == 'deserialize_address':
            out = K.deserialize_address(addr, encoding='base58')['public_key_hash_bytes']
        elif route == 'Address.parse':
            out = K.Address.parse(addr, encoding='base58').hash_bytes
        else:
            out = E.addr_base58_to_pubkeyhash(addr)
        accepted = True
    except (E.EncodingError, K.BKeyError, AssertionError):
        accepted = False
    good = (ln == 25) and (H(dec[:-4])[:4] == dec[-4:])
    if accepted:
        ex.check(good, 'base58-address-accepts-only-25-bytes-with-correct-checksum')
        ex.check(len(out) == 20 and ln >= 21 and out == dec[1:21], 'base58-address-payload')
    else:
        ex.check(s_not(good), 'base58-address-rejects-only-bad-strings')


_REALCB = {}


def jobs(tier):
    q = tier == 'quick'
    J = [Job('polymod_step', h_polymod_step, W=48, setup=setup_step)]
    for (pre, n) in ([('bc1', 11), ('bc1', 14), ('bc1', 16), ('', 8)] if q else [('bc1', 11), ('bc1', 12), ('bc1', 14), ('bc1', 17), ('tb1', 14), ('ltc1', 14), ('', 8), ('', 9), ('', 10)]):
        j = Job('bech32_decode_%s%d' % (pre, n), h_bech32_decode, W=48, setup=setup, params=dict(prefix=pre, nsym=n), budget_s=6000)
        j.cost = 100
        J.append(j)
    for hrp in ('bc', 'tb', 'ltc'):
        J.append(Job('bech32_encode_%s' % hrp, h_bech32_encode, W=48, setup=setup, budget_s=3000,
                     params=dict(hrp=hrp, witvers=[0, 1, 16] if q else list(range(17)), lens=[2, 3, 4, 20, 32] if hrp == 'bc' else [20, 32])))
    J.append(Job('base58check_addr', h_base58check_addr, W=48, setup=setup))
    for route in ('deserialize_address', 'addr_base58_to_pubkeyhash'):      # (Address.parse goes through deserialize_address)
        J.append(Job('base58_address_%s' % route.replace('.', '_'), h_base58_address_routes, W=48, setup=setup, params=dict(route=route)))
    from harness import c12                # the WIF / extended-key envelopes (C12 harness, checksum obligations)
    J += [j for j in c12.jobs(tier) if j.name.startswith(('wif_import_', 'hd_import_init', 'hd_import_from_wif'))]
    for (wv, nd) in [(0, 32), (0, 52), (1, 52), (16, 4)]:
        J.append(Job('ref_checksum_lemma_v%d_%d' % (wv, nd), h_ref_checksum_lemma, W=48, setup=setup_step, params=dict(witver=wv, ndata=nd), budget_s=1500))
    return J
