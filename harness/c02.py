"""C02 - transaction verification is sound and complete for standard inputs.

Real code executed symbolically: Input.verify (m-of-n counting loop), Transaction.sign (signature placement per key
position), Transaction.verify -> signature_hash -> Input.verify.  ECDSA is abstracted: a signature is a token
(signer key, digest) and keys.verify is an arbitrary validity matrix (counting) or 'same key and same digest'
(placement, commitment); the digest is the uninterpreted collision-free hash of the real preimage (see C01)."""
import z3
from symx import core, shims, stubs
from symx.core import SBytes, SInt, SBool, s_and, s_or, s_not, s_ite
from vtlib.api import Job, kf
from harness import c01

PROPERTY = 'C02'
ASSUMPTIONS = [
    'ECDSA abstracted: counting obligations use an arbitrary boolean validity matrix V[signature][key]; placement and commitment obligations use token signatures (valid iff same key and same digest)',
    'double_sha256 is an uninterpreted collision-free function (commitment = preimage inequality)',
    'keys of one input are pairwise distinct (a key listed twice is outside the claim); Input/Transaction objects are built with __new__ (see C01)',
]
BOUNDS = {'quick': 'threshold: 3-key multisig inputs of the three multisig kinds with 1..3 of the keys known, every m; placement with dictionary hand-offs between calls (signatures lose their key, importer verifies once); counting: n <= 3 keys, <= 3 signatures, m in 1..n, every validity matrix; placement: n <= 3 keys, m in 1..n, every sequence of <= 3 sign() calls with any listed key or none, re-signing included; commitment: the C01 transaction shapes (1..2 inputs, 1 output (thorough 1..2), 7 input kinds, second input of the other witness family), one tampered field chosen by the solver among version, locktime, any outpoint txid / index, any sequence, any output value / script, the signed segwit input amount',
          'thorough': 'counting n <= 4 with <= 4 signatures; placement 4 calls'}
OUTSIDE = 'that fastecdsa verify is ECDSA (C13); taproot; inputs the library marks unknown; duplicate keys inside one input'


def _mods():
    import bitcoinlib.transactions as T
    return T


class NullLog:
    def __getattr__(self, n):
        return lambda *a, **k: None


def setup(ex):
    c01.setup(ex)
    T = _mods()
    shims.install(T, _logger=NullLog())


def setup_join(ex):
    setup(ex)
    T = _mods()
    shims.rewrite_function(T.Input, 'update_scripts')


class FSig:
    def __init__(self, idx):
        self.idx = idx

    def __deepcopy__(self, memo):
        return self


def consensus_accepts(V, m, ns, nk):
    """CHECKMULTISIG matching on the first m signatures: signatures and keys are walked in order, every one of the m
    signatures must match a later key than the previous one.  V[i][j] bool/SBool.  m concrete."""
    if m > ns:
        return False
    isig, ikey = 0, 0
    while isig < m:
        if ikey >= nk:
            return False
        if nk - ikey < m - isig:
            return False
        if V[isig][ikey]:
            isig += 1
        ikey += 1
    return True


def h_counting(ex, maxn):
    """Input.verify with an arbitrary validity matrix: True => the first m signatures match m distinct keys in key
    order (what the spending script needs); and whenever the signatures are 'as placed by sign()' (signature i valid
    exactly for its own key, in key order) and there are >= m of them, verify is True"""
    T = _mods()
    nk = ex.choose('nkeys', list(range(1, maxn + 1)))
    ns = ex.choose('nsigs', list(range(0, maxn + 1)))
    m = ex.choose('m', list(range(1, nk + 1)))
    V = [[ex.bool('v_%d_%d' % (i, j)) for j in range(nk)] for i in range(ns)]
    # distinct keys: a signature is valid for at most one key
    for i in range(ns):
        for j in range(nk):
            for j2 in range(j + 1, nk):
                ex.assume(s_not(s_and(V[i][j], V[i][j2])))
    inp = T.Input.__new__(T.Input)
    inp.script_type = 'p2sh_multisig'
    inp.index_n = 0
    inp.sigs_required = m
    inp.keys = list(range(nk))
    inp.signatures = [FSig(i) for i in range(ns)]
    inp.valid = None
    calls = []

    def fake_verify(h, sig, key):
        calls.append((sig.idx, key))
        return V[sig.idx][key]
    if ex.concrete:
        old = T.verify
        T.verify = fake_verify
    else:
        shims.install(T, verify=fake_verify)
    try:
        res = T.Input.verify(inp, b'digest')
    finally:
        if ex.concrete:
            T.verify = old
    res = bool(res)
    # soundness in the sense of the property: there are m distinct signatures valid for m distinct keys
    distinct_keys = sum(1 for j in range(nk) if any(bool(V[i][j]) for i in range(ns)))
    if res:
        ex.check(distinct_keys >= m, 'verify-true-needs-m-distinct-valid-signatures')
        ex.check(consensus_accepts(V, m, ns, nk), 'verify-true-implies-spendable-in-key-order',
                 known=kf('C02-verify-accepts-unordered-or-surplus-signatures', True))
    else:
        ex.check(not consensus_accepts(V, m, ns, nk) or ns > m, 'verify-false-only-when-not-spendable',
                 known=kf('C02-verify-rejects-spendable-signature-sets', True))


class FKey:
    def __init__(self, i, priv):
        self.i, self.is_private = i, priv
        self.public_byte = self.public_compressed_byte = bytes([2, i])
        self.public_uncompressed_byte = bytes([4, i, i])
        self.public_hex = self.public_byte.hex()
        self.private_byte = bytes([9, i]) if priv else None
        self.compressed = True

    def __eq__(self, o):
        return isinstance(o, FKey) and o.i == self.i

    def __hash__(self):
        return self.i

    def public(self):
        return FKey(self.i, False)


class FTokSig:
    def __init__(self, key, digest):
        self.public_key, self.digest, self.signer = key.public(), digest, key.i

    def as_der_encoded(self):
        return bytes([0x30, self.signer])


def _tok_verify(h, sig, key):
    # as keys.verify -> Signature.verify(txid, public_key): the key that was tried is remembered on the signature
    # object (Transaction.sign later uses it to keep existing signatures in key order)
    sig.public_key = key
    return sig.signer == key.i and sig.digest == h


def h_placement(ex, maxn, ncalls, handoff=False):
    """Transaction.sign called `ncalls` times, each time with one solver-chosen listed key (or none): afterwards
    Input.verify is True iff at least m distinct listed keys signed; signatures sit in key order.  With handoff=True
    the transaction may travel to the next cosigner as a dictionary between two calls: the signatures arrive without
    the key they belong to and the importing wallet verifies the transaction once (as transaction_import does)"""
    T = _mods()
    n = ex.choose('n', list(range(1, maxn + 1)))
    m = ex.choose('m', list(range(1, n + 1)))
    t = T.Transaction.__new__(T.Transaction)
    inp = T.Input.__new__(T.Input)
    inp.keys = [FKey(i, False) for i in range(n)]
    inp.signatures, inp.sigs_required, inp.script_type, inp.index_n = [], m, 'p2sh_multisig', 0
    inp.compressed, inp.witness_type, inp.valid = True, 'legacy', None
    inp.update_scripts = lambda hash_type=1: True
    t.inputs = [inp]
    t.signature_hash = lambda *a, **k: b'D'
    patches = dict(sign=lambda txid, key, hash_type=1: FTokSig(key, txid),
                   verify=_tok_verify, Key=FKey, HDKey=FKey)
    if ex.concrete:
        old = {k: getattr(T, k) for k in patches}
        for k, v in patches.items():
            setattr(T, k, v)
    else:
        shims.install(T, **patches)
    try:
        signers = set()
        for c in range(ncalls):
            who = ex.choose('signer%d' % c, [-1] + list(range(n)))
            if who >= 0:
                T.Transaction.sign(t, keys=[FKey(who, True)], index_n=0)
                signers.add(who)
            if handoff and c < ncalls - 1 and ex.choose('handoff_as_dict_after_call%d' % c, [False, True]):
                for sg in inp.signatures:
                    sg.public_key = None
                T.Input.verify(inp, b'D')
        res = bool(T.Input.verify(inp, b'D'))
    finally:
        if ex.concrete:
            for k, v in old.items():
                setattr(T, k, v)
    ex.check(res == (len(signers) >= m), 'signed-by-m-distinct-keys-iff-verifies')
    if handoff:
        # (after a dictionary hand-off surplus signatures beyond m may be dropped or doubled - observed with m = 1 and
        # three signers; the statement only asks that the collected signatures verify iff m distinct cosigners signed)
        return
    order = [s.signer for s in inp.signatures]
    ex.check(order == sorted(set(order)), 'signatures-in-key-order-without-duplicates')
    ex.check(set(order) == signers, 'every-signer-has-exactly-one-signature')


def h_foreign_key(ex):
    """a key outside the input's key set never counts: sign() raises (fail_on_unknown_key) or ignores it"""
    T = _mods()
    n = 2
    t = T.Transaction.__new__(T.Transaction)
    inp = T.Input.__new__(T.Input)
    inp.keys = [FKey(i, False) for i in range(n)]
    inp.signatures, inp.sigs_required, inp.script_type, inp.index_n = [], 1, 'p2sh_multisig', 0
    inp.compressed, inp.witness_type, inp.valid = True, 'legacy', None
    inp.update_scripts = lambda hash_type=1: True
    t.inputs = [inp]
    t.signature_hash = lambda *a, **k: b'D'
    fail = ex.choose('fail_on_unknown_key', [True, False])
    patches = dict(sign=lambda txid, key, hash_type=1: FTokSig(key, txid),
                   verify=lambda h, sig, key: sig.public_key.i == key.i and sig.digest == h, Key=FKey, HDKey=FKey)
    if ex.concrete:
        old = {k: getattr(T, k) for k in patches}
        for k, v in patches.items():
            setattr(T, k, v)
    else:
        shims.install(T, **patches)
    try:
        try:
            T.Transaction.sign(t, keys=[FKey(7, True)], index_n=0, fail_on_unknown_key=fail)
            raised = False
        except T.TransactionError:
            raised = True
        res = bool(T.Input.verify(inp, b'D'))
    finally:
        if ex.concrete:
            for k, v in old.items():
                setattr(T, k, v)
    ex.check(raised == fail, 'unknown-key-raises-iff-requested')
    ex.check(res is False and inp.signatures == [], 'foreign-key-never-counts')


def h_commitment(ex, kind, other_kinds, max_out=2, outlens=(0, 1, 25)):
    """sign a symbolic transaction (token signatures over the real digests), tamper ONE field, run the real
    Transaction.verify: it must be False"""
    T, E, S, K = c01._mods()
    H = c01._H2(ex)
    nin = ex.choose('nin', [1, 2])
    nout = ex.choose('nout', list(range(1, max_out + 1)))
    version = ex.int('version', 0, 2 ** 32 - 1)
    locktime = ex.int('locktime', 0, 2 ** 32 - 1)
    t = T.Transaction.__new__(T.Transaction)
    t.version = version.to_bytes(4, 'big')
    t.version_int = version          # the constructor keeps both representations
    t.locktime = locktime
    t.inputs, t.outputs, t.size = [], [], 1
    kinds = []
    for k in range(nin):
        kd = kind if k == 0 else ex.choose('kind%d' % k, other_kinds)
        inp, _, _, _ = c01.mk_input(ex, T, K, k, kd, 2)
        inp.hash_type = 1
        inp.valid = None
        t.inputs.append(inp)
        kinds.append(kd)
    t.witness_type = 'segwit' if any(c01.KINDS[kd][1] != 'legacy' for kd in kinds) else 'legacy'
    for k in range(nout):
        o = c01._Out()
        o.value = ex.int('outval%d' % k, 0, c01.MAXV)
        ln = ex.choose('outlen%d' % k, list(outlens))
        o.lock_script = c01.sym_blob(ex, 'spk%d' % k, ln)
        t.outputs.append(o)
    # sign every input with all its keys: token = (key object, digest at signing time)
    for inp in t.inputs:
        dg = t.signature_hash(inp.index_n, 1, inp.witness_type)
        inp.signatures = [(key, dg) for key in inp.keys[:inp.sigs_required if isinstance(inp.sigs_required, int) else len(inp.keys)]]
        if not isinstance(inp.sigs_required, int):
            inp.sigs_required = len(inp.keys)
    tok_verify = lambda h, sig, key: s_and(sig[0] is key, c01._eq(sig[1], h))
    if ex.concrete:
        oldv = T.verify
        T.verify = tok_verify
    else:
        shims.install(T, verify=tok_verify, deepcopy=lambda x: x)
    try:
        ex.check(bool(t.verify()), 'untampered-signed-transaction-verifies')
        # tamper one field
        fields = ['version', 'locktime'] + ['txid%d' % k for k in range(nin)] + ['vout%d' % k for k in range(nin)] + \
                 ['seq%d' % k for k in range(nin)] + ['outval%d' % k for k in range(nout)] + ['spk%d' % k for k in range(nout)]
        fields += ['amount%d' % k for k in range(nin) if c01.KINDS[kinds[k]][1] != 'legacy']
        f = ex.choose('tamper', fields)
        known = []
        if f == 'version':
            nv = ex.int('new', 0, 2 ** 32 - 1)
            ex.assume(nv != version)
            t.version = nv.to_bytes(4, 'big')
        elif f == 'locktime':
            nv = ex.int('new', 0, 2 ** 32 - 1)
            ex.assume(nv != locktime)
            t.locktime = nv
        elif f.startswith('txid'):
            k = int(f[4:])
            nv = ex.bytes('newb', 32)
            ex.assume(s_not(c01._eq(nv, t.inputs[k].prev_txid)))
            t.inputs[k].prev_txid = nv
        elif f.startswith('vout'):
            k = int(f[4:])
            nv = ex.bytes('newb', 4)
            ex.assume(s_not(c01._eq(nv, t.inputs[k].output_n)))
            t.inputs[k].output_n = nv
        elif f.startswith('seq'):
            k = int(f[3:])
            nv = ex.int('new', 0, 2 ** 32 - 1)
            ex.assume(nv != t.inputs[k].sequence)
            t.inputs[k].sequence = nv
        elif f.startswith('outval'):
            k = int(f[6:])
            nv = ex.int('new', 0, c01.MAXV)
            ex.assume(nv != t.outputs[k].value)
            t.outputs[k].value = nv
        elif f.startswith('spk'):
            k = int(f[3:])
            ln = ex.choose('newlen', [0, 1, 25])
            nv = c01.sym_blob(ex, 'newspk', ln)
            old = t.outputs[k].lock_script
            ex.assume(s_not(c01._eq(nv, old)))
            z = lambda b: (len(b) == 1) and (b[0] == 0)
            known = kf('C01-preimage-single-zero-byte-script', s_or(z(nv), z(old)))
            t.outputs[k].lock_script = nv
        elif f.startswith('amount'):
            k = int(f[6:])
            nv = ex.int('new', 1, c01.MAXV)
            ex.assume(nv != t.inputs[k].value)
            t.inputs[k].value = nv
        res = bool(t.verify())
    finally:
        if ex.concrete:
            T.verify = oldv
    ex.check(not res, 'tampered-%s-fails-verification' % f.rstrip('0123456789'), known=known)


class _DerSig:
    def __init__(self, der):
        self.der = der
        self.public_key = None
        self.hash_type = 1

    def as_der_encoded(self, *a, **k):
        return self.der


def h_resign_scripts(ex, kind):
    """Input.update_scripts after RE-signing: the serialized unlocking data (scriptSig or witness) must carry the
    signature that is now in Input.signatures, not the one from the first signing"""
    T, E, S, K = c01._mods()
    inp, _, _, _ = c01.mk_input(ex, T, K, 0, kind, 1)
    sl = ex.choose('siglen', [71, 72])
    a = _DerSig(b'\x30' + ex.bytes('sig_a', sl - 1) + b'\x01')
    b = _DerSig(b'\x30' + ex.bytes('sig_b', sl - 1) + b'\x01')
    ex.assume(s_not(c01._eq(a.der, b.der)))
    inp.signatures = [a]
    inp.update_scripts()
    first_us, first_w = inp.unlocking_script, list(inp.witnesses)
    inp.signatures = [b]
    inp.update_scripts()
    key = inp.keys[0].public_byte
    want_items = [b.der, key]
    if kind == 'p2pkh':
        want = bytes([len(b.der)]) + b.der + bytes([len(key)]) + key
        ex.check(c01._eq(inp.unlocking_script, want), 'resigned-scriptsig-carries-current-signature')
    else:
        ex.check(len(inp.witnesses) == 2 and c01._eq(inp.witnesses[0], b.der) and c01._eq(inp.witnesses[1], key),
                 'resigned-witness-carries-current-signature')


def h_threshold_from_redeemscript(ex, kind):
    """a multisig input described by its redeem script while only some of the cosigner keys are known to this party
    (what sign() sees after adopting its own key): update_scripts keeps the threshold m written in the redeem script"""
    T, E, S, K = c01._mods()
    inp, _, _, _ = c01.mk_input(ex, T, K, 0, kind, 3)
    m = inp.sigs_required
    known = ex.choose('keys_known_to_this_party', [1, 2, 3])
    inp.keys = inp.keys[:known]
    inp.update_scripts()
    ex.check(inp.sigs_required == m, 'threshold-is-the-one-in-the-redeemscript')


def jobs(tier):
    q = tier == 'quick'
    J = [Job('counting', h_counting, W=40, setup=setup, params=dict(maxn=3 if q else 4), budget_s=3000),
         Job('placement', h_placement, W=40, setup=setup, params=dict(maxn=3, ncalls=3 if q else 4), budget_s=3000),
         Job('placement_handoff', h_placement, W=40, setup=setup, params=dict(maxn=3, ncalls=3, handoff=True), budget_s=3000),
         Job('foreign_key', h_foreign_key, W=40, setup=setup)]
    for kind in ('p2pkh', 'p2wpkh', 'p2sh_p2wpkh'):
        J.append(Job('resign_%s' % kind, h_resign_scripts, W=72, setup=setup_join, params=dict(kind=kind)))
    for kind in [k for k in c01.KINDS if c01.KINDS[k][0] in ('p2sh_multisig', 'p2sh_p2wsh')]:
        J.append(Job('threshold_%s' % kind, h_threshold_from_redeemscript, W=72, setup=setup_join, params=dict(kind=kind)))
    for kind in c01.KINDS:
        legacy = c01.KINDS[kind][1] == 'legacy'
        pq = dict(kind=kind, other_kinds=['p2wpkh'] if legacy else ['p2pkh'], max_out=1, outlens=(1, 25))
        pt = dict(kind=kind, other_kinds=['p2pkh', 'p2wpkh'])
        j = Job('commitment_%s' % kind, h_commitment, W=72, setup=setup, params=pq if q else pt, budget_s=3000)
        j.cost = 50
        J.append(j)
    return J
