"""C17 - amount conversion is exact to the smallest unit.

Real code executed symbolically: values.Value.__init__ (string and numeric branches), Value.from_satoshi,
Value.value_sat, Value.str (up to the value handed to %-formatting), values.value_to_satoshi,
Transaction.add_output's integer check.

Binary floating point is modelled EXACTLY (symx/lia.py: exact rational result, binade fork, round-half-even with
explicit remainder, all in linear integer arithmetic); every path replays one witness on the real floats."""
from fractions import Fraction
import z3
from symx import core, shims, lia
from symx.core import s_and, s_or, s_not
from symx.lia import LInt, SFloat, SDecF, SAmountStr, FormatCut, rne_div
from vtlib.api import Job, kf

PROPERTY = 'C17'
ASSUMPTIONS = [
    'float(decimal string) is correctly rounded to nearest-even (documented CPython contract); modelled exactly',
    "'%.Nf' % x is the correctly rounded decimal of the exact binary value (C library contract); Value.str is followed up to the value handed to the format operator, the digits are then derived from that contract",
    'IEEE-754 binary64 multiplication / division / round() with one symbolic operand: exact integer model, validated on every path by replaying a witness on real floats',
    'amounts are non-negative and at most 21e14 smallest units',
]
BOUNDS = {
    'quick': 'from_satoshi / str: every integer amount 0..21e14 under the unit and sat denominators, amounts 0..1000 (value) and 0..3 (text) under m, c, d, da, h, k, M; parsing: every integer amount 0..21e14 smallest units; decimal strings with every digit string of d decimals for d in the listed set per denominator; denominators: all of NETWORK_DENOMINATORS from sat to M (sub-satoshi denominators with amounts that are whole satoshis); networks bitcoin, litecoin, dogecoin, dash, testnet (currency code only matters for parsing)',
    'thorough': 'as quick with every d in 0..8 for every denominator and every network of NETWORK_DEFINITIONS',
}
OUTSIDE = "'auto' denominator selection, arithmetic operators of Value, amounts above 21e6 coins, negative amounts"
MAX_SAT = 21 * 10 ** 14


def _mods():
    import bitcoinlib.values as V
    import bitcoinlib.transactions as T
    return V, T


def setup(ex):
    V, T = _mods()
    shims.install(V, float=lia.FloatShim, str=lia.StrShimL, int=lia.IntShimL)
    shims.install(T, float=lia.FloatShim, int=lia.IntShimL)
    shims.rewrite_function(V.Value, 'value_sat')          # ('<fmt>' % x on a symbolic double stays symbolic, see symx.lia.SDecG)


def _amount_string(ex, digits_value, d, unit):
    """the text "<digits with d decimals> <unit>": structured in symbolic mode, a real str in concrete mode"""
    if ex.concrete:
        s = str(digits_value).rjust(d + 1, '0')
        txt = (s[:-d] + '.' + s[-d:]) if d else s
        return txt + ((' ' + unit) if unit is not None else '')
    return SAmountStr(SDecF(digits_value, d), unit)


def _den_symbols():
    from bitcoinlib.config.config import NETWORK_DENOMINATORS
    return NETWORK_DENOMINATORS


def h_parse(ex, den, symb, code, network, d):
    """Value('<x> <symb><CODE>').value_sat and value_to_satoshi of the same text are exact"""
    V, T = _mods()
    den_f = Fraction(repr(den))
    c = den_f * 10 ** 8 / 10 ** d              # smallest units per digit-string unit
    mult = 1
    if c < 1:
        mult = int(1 / c)
        assert Fraction(mult) * c == 1
        c = Fraction(1)
    assert c.denominator == 1
    c = int(c)
    kmax = MAX_SAT // c
    k = ex.lint('k', 0, kmax)
    digits = k * mult
    text = _amount_string(ex, digits, d, symb + code)
    want = k * c
    v = V.Value(text, network=network) if network else V.Value(text)
    got = v.value_sat
    # listed finding: for denominators other than the main unit and sat, amounts of >= 2^50 smallest units may be off by
    # exactly one unit (two chained double roundings); anything else - a larger error or an error below 2^50 - is a violation
    def k_off(g):
        if symb in ('', 'sat'):
            return []
        return kf('C17-float-off-by-one-above-2^50', s_and(want >= 2 ** 50, s_or(g == want + 1, g == want - 1)))
    ex.check(got == want, 'value_sat-exact', known=k_off(got))
    got2 = V.value_to_satoshi(_amount_string(ex, digits, d, symb + code))
    ex.check(got2 == want, 'value_to_satoshi-exact', known=k_off(got2))
    ex.check(v.network.currency_code.upper() == code.upper(), 'network-from-currency-code')

    def conc(i):
        kk = i['k']
        s = str(kk * mult).rjust(d + 1, '0')
        txt = ((s[:-d] + '.' + s[-d:]) if d else s) + ' ' + symb + code
        return V.Value(txt).value_sat
    ex.validate(got, conc, 'Value(str).value_sat')


def _format_contract(cut, frame_locals):
    """'%.{decimals}f' % balance -> digit value N with `decimals` decimals (correctly rounded, half-even on the exact
    binary value)"""
    x = cut.value
    dec = frame_locals['decimals']
    if isinstance(x, float):
        n, dd = Fraction(x).numerator, Fraction(x).denominator
    else:
        n, dd = x.exact()
    return rne_div(n * 10 ** dec, dd), dec


def _str_cut(v, den):
    """run the real Value.str(den) up to the %-format; returns (balance SFloat, locals of Value.str)"""
    try:
        s = v.str(den)
    except FormatCut as c:
        tb = c.__traceback__
        fl = None
        while tb is not None:
            if tb.tb_frame.f_code.co_name == 'str' and 'decimals' in tb.tb_frame.f_locals:
                fl = dict(tb.tb_frame.f_locals)
            tb = tb.tb_next
        if fl is None:
            raise core.HarnessError("format cut outside Value.str")
        return c, fl
    return s, None


def h_from_satoshi(ex, den, symb, network, code, nmax=MAX_SAT):
    """from_satoshi(n, den).value_sat == n"""
    V, T = _mods()
    n = ex.lint('n', 0, nmax)
    v = V.Value.from_satoshi(n, denominator=den, network=network)
    got = v.value_sat
    ex.check(got == n, 'from_satoshi-value_sat-roundtrip')

    def conc(i):
        return V.Value.from_satoshi(i['n'], denominator=den, network=network).value_sat
    ex.validate(got, conc, 'from_satoshi.value_sat')


def h_from_satoshi_str(ex, den, symb, network, code, nmax=MAX_SAT):
    """from_satoshi(n, den).str(den) shows exactly the decimal expansion of n smallest units (so that, by the parse
    obligations, parsing the text returns n)"""
    V, T = _mods()
    n = ex.lint('n', 0, nmax)
    v = V.Value.from_satoshi(n, denominator=den, network=network)
    c = Fraction(repr(den)) * 10 ** 8
    if ex.concrete:
        text = v.str(den)
        fl = None
    else:
        text, fl = _str_cut(v, den)
    if fl is None:          # concrete run (replay, or n == 0): the real str() ran to the end
        num, unit = text.split()[0], text.split()[1] if len(text.split()) > 1 else ''
        dec = len(num.split('.')[1]) if '.' in num else 0
        N = int(num.replace('.', ''))
        den_symb_ok = unit.startswith(symb)
    else:
        N, dec = _format_contract(text, fl)
        den_symb_ok = fl['den_symb'] == symb
    ex.check(den_symb_ok, 'str-denominator-symbol')
    scale = Fraction(10 ** dec) / c
    if scale.denominator == 1:      # one smallest unit is a whole number of last digits
        ex.check(N == n * int(scale), 'str-digits-exact')
    else:
        # the format keeps at most 8 decimals: for denominators above 1 a smallest unit is not representable
        # (listed only where it applies: denominators above the main unit need more than 8 decimals)
        ex.check(False, 'str-digits-exact', known=kf('C17-str-caps-decimals-at-8', c > 10 ** 8))


def h_from_satoshi_default(ex, network):
    V, T = _mods()
    n = ex.lint('n', 0, MAX_SAT)
    v = V.Value.from_satoshi(n, network=network)
    ex.check(v.value_sat == n, 'from_satoshi-default-roundtrip')
    ex.validate(v.value_sat, lambda i: V.Value.from_satoshi(i['n'], network=network).value_sat, 'from_satoshi')


class _RecOutput:
    def __init__(self, value=None, **kw):
        self.value = value
        self.kw = kw


def h_add_output(ex):
    """Transaction.add_output(value=x) for an arbitrary double x in [2^-10, 2^53): accepted => the stored amount is
    the integer x itself; ints are stored unchanged"""
    V, T = _mods()
    kind = ex.choose('kind', ['float', 'int'])
    t = T.Transaction.__new__(T.Transaction)
    t.outputs = []
    t.network = type('N', (), {'name': 'bitcoin'})()
    if not ex.concrete:
        shims.install(T, Output=_RecOutput)
    else:
        T.Output = _RecOutput
    if kind == 'int':
        n = ex.lint('n', 0, MAX_SAT)
        t.add_output(n, lock_script=b'\x51')
        ex.check(t.outputs[0].value == n, 'add_output-int-stored-unchanged')
        return
    e = ex.choose('exp2', list(range(-62, 1)))
    m = ex.lint('m', 1 << 52, (1 << 53) - 1)
    x = SFloat(m, 1, e) if not ex.concrete else float(Fraction(m) * Fraction(2) ** e)
    try:
        t.add_output(x, lock_script=b'\x51')
    except T.TransactionError:
        ex.reach('refused')
        # refusal is legitimate exactly for non-integers
        is_int = (m % (1 << (-e)) == 0) if e < 0 else True
        ex.check(s_not(is_int), 'add_output-refuses-only-non-integers')
        return
    stored = t.outputs[0].value
    # accepted: must be exactly x and x must be an integer
    if e < 0:
        ex.check(s_and(m % (1 << (-e)) == 0, stored == m // (1 << (-e))), 'add_output-accepted-float-is-exact-integer')
    else:
        ex.check(stored == m * (1 << e), 'add_output-accepted-float-is-exact-integer')


def _is_integer(self):
    n, d = self.exact()
    return (n % d == 0) if d != 1 else True


SFloat.is_integer = _is_integer

NETS_Q = [('bitcoin', 'BTC'), ('litecoin', 'LTC'), ('dogecoin', 'DOGE'), ('testnet', 'tBTC')]


def _all_networks():
    from bitcoinlib.networks import NETWORK_DEFINITIONS
    out, seen = [], set()
    for n, d in NETWORK_DEFINITIONS.items():
        cc = d['currency_code']
        if cc.upper() not in seen:       # parsing picks the first network with that code
            seen.add(cc.upper())
            out.append((n, cc))
    return out


def jobs(tier):
    q = tier == 'quick'
    J = []
    dens = _den_symbols()
    nets = NETS_Q if q else _all_networks()
    for den, symb in dens.items():
        if den > 10 ** 6 or (q and symb == 'µ'):       # µ: decided, but single queries take up to 100 s - thorough only
            continue
        ds = [0, 2, 8] if q else list(range(0, 9))
        for d in ds:
            for (net, code) in (nets if symb in ('', 'm') and d in (0, 8) else nets[:1]):
                name = 'parse_%s%s_d%d' % (symb or 'unit', code, d)
                j = Job(name, h_parse, W=8, setup=setup, incremental=False, optimistic=True, params=dict(den=den, symb=symb, code=code, network=None, d=d), budget_s=2400, timeout_ms=600000)
                j.cost = 5
                J.append(j)
    # from_satoshi chains three to six roundings with non-power-of-two constants; only the configurations that z3 decides
    # with >= 3x head-room are registered (others were measured to hit solver timeouts and are outside the claim)
    for den, symb in dens.items():
        if symb not in ('', 'sat', 'k'):
            continue
        for (net, code) in nets[:2]:
            if symb != 'k':
                J.append(Job('from_satoshi_%s_%s' % (symb or 'unit', net), h_from_satoshi, W=8, setup=setup, incremental=False, optimistic=True,
                             params=dict(den=den, symb=symb, network=net, code=code), budget_s=1200))
            if symb == 'sat' or (symb == 'k' and net != 'bitcoin'):
                continue
            J.append(Job('from_satoshi_str_%s_%s' % (symb or 'unit', net), h_from_satoshi_str, W=8, setup=setup, incremental=False, optimistic=True,
                         params=dict(den=den, symb=symb, network=net, code=code, nmax=MAX_SAT if symb != 'k' else 3), budget_s=2400, timeout_ms=600000))
    # the text form for the other denominators: amounts of 0..3 smallest units (the number of decimals printed is what
    # differs between denominators; larger amounts time out in the float model)
    for den, symb in dens.items():
        if symb in ('m', 'c', 'd', 'da', 'h', 'k', 'M'):
            # value_sat round trip for small amounts under every denominator up to mega (larger amounts time out)
            J.append(Job('from_satoshi_%s_bitcoin_small' % symb, h_from_satoshi, W=8, setup=setup, incremental=False, optimistic=True,
                         params=dict(den=den, symb=symb, network='bitcoin', code='BTC', nmax=1000), budget_s=1200, timeout_ms=600000))
        if symb in ('m', 'c', 'd', 'da', 'h'):
            J.append(Job('from_satoshi_str_%s_bitcoin_small' % symb, h_from_satoshi_str, W=8, setup=setup, incremental=False, optimistic=True,
                         params=dict(den=den, symb=symb, network='bitcoin', code='BTC', nmax=3), budget_s=1200, timeout_ms=600000))
    for (net, code) in nets:
        J.append(Job('from_satoshi_default_%s' % net, h_from_satoshi_default, W=8, setup=setup, incremental=False, optimistic=True, params=dict(network=net), budget_s=1200))
    J.append(Job('add_output', h_add_output, W=8, setup=setup, incremental=False, optimistic=True, budget_s=1200))
    return J
