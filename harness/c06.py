"""C06 - transaction (and block header) serialization round-trips byte for byte; ids are exact.

Real code executed symbolically: Transaction.parse_bytesio, Input.parse, Input.__init__, Output.parse,
Output.__init__, Script.parse_bytes (on every script field), Input.update_scripts, Transaction.__init__,
Transaction.raw, witness serialization, read_varbyteint, varstr; Block.parse_bytesio header fields / target.
Keys and signatures found inside scripts are recorded by stubs (their bytes are kept), hashes are uninterpreted."""
import z3
from symx import core, shims, stubs
from symx.core import SBytes, SInt, s_and, s_or, s_not
from vtlib.api import Job, kf
from ref import wire

PROPERTY = 'C06'
ASSUMPTIONS = [
    'Key(...) / Signature.parse_bytes(...) inside script parsing are replaced by recording stubs that keep the bytes (the real ones call C code); Address construction is stubbed (C05)',
    'double_sha256 / hash160 / sha256 are uninterpreted functional symbols: the txid obligation compares the byte string handed to the hash with the witness-stripped reference serialization',
    'the serialized transaction is assembled by the harness from a symbolic shape (counts, field lengths: scheduler choices) and symbolic content',
]
BOUNDS = {'quick': 'Input(witnesses=<wire bytes>) with 1..2 items of 0, 1, 2, 252, 253, 300 bytes; legacy and segwit transactions with 1..2 inputs and 1..2 outputs; version, locktime, sequences, outpoints, values fully symbolic; unlocking scripts: empty, standard <sig 71|72><pubkey 33> and <sig><uncompressed pubkey 65> with symbolic bytes, 1 fully symbolic byte; locking scripts: P2PKH / P2SH / P2WPKH / P2WSH templates with symbolic hash, empty, 1 fully symbolic byte; witness stacks: none, <sig><pubkey>, one item of 1 symbolic byte, empty item',
          'thorough': 'as quick plus 2 fully symbolic script bytes, the two-input signed-legacy template (three locking script templates; measured 15 min), all five locking script templates for the other shapes, more witness item lengths'}
OUTSIDE = 'scripts longer than the bound with fully symbolic content; taproot witness interpretation; blocks with transactions (only the header/target arithmetic is encoded)'


def _mods():
    import bitcoinlib.transactions as T
    import bitcoinlib.encoding as E
    import bitcoinlib.scripts as S
    import bitcoinlib.keys as K
    import bitcoinlib.blocks as B
    return T, E, S, K, B


class NullLog:
    def __getattr__(self, n):
        return lambda *a, **k: None


_H = {}


class FakeKey:
    """stand-in for keys.Key on public key bytes: keeps the serialization it was given, knows whether that is the
    compressed form, and offers both forms (the form not given is an uninterpreted function of the given one)"""

    def __init__(self, data=None, *a, **k):
        self.public_byte = data
        self.compressed = len(data) != 65
        self.is_private = False
        self.public_hex = None

    @property
    def public_compressed_byte(self):
        if self.compressed:
            return self.public_byte
        d = self.public_byte
        odd = (d[64] & 1) == 1
        return (b'\x03' if bool(odd) else b'\x02') + d[1:33]

    @property
    def public_uncompressed_byte(self):
        if not self.compressed:
            return self.public_byte
        return b'\x04' + self.public_byte[1:] + _H['sha'](b'y-coordinate-of' + self.public_byte)

    @property
    def hash160(self):
        return _H['h160'](self.public_byte)

    def __eq__(self, o):
        return isinstance(o, FakeKey) and bool(_eqb(o.public_byte, self.public_byte))

    def __hash__(self):
        return 1

    def __bytes__(self):
        return self.public_byte


class FakeSig:
    def __init__(self, raw):
        self.raw = raw
        self.hash_type = raw[len(raw) - 1]
        if isinstance(self.hash_type, SInt):
            self.hash_type = 1          # the hash type byte is kept inside raw; only its truthiness is used here
        self.public_key = None

    @staticmethod
    def parse_bytes(b, public_key=None):
        return FakeSig(b)

    @staticmethod
    def parse(b, public_key=None):
        return FakeSig(b)

    def as_der_encoded(self, *a, **k):
        return self.raw

    def __bytes__(self):
        return self.raw


class FakeAddress:
    def __init__(self, *a, **k):
        self.address = 'addr'
        self.encoding = k.get('encoding')
        self.network = k.get('network')
        self.script_type = k.get('script_type')
        self.witness_type = k.get('witness_type')
        self.prefix = b''
        self.hash_bytes = k.get('hashed_data')


class _FakeDigest:
    def __init__(self, d):
        self.d = d

    def digest(self):
        return self.d


class _FakeHashlib:
    def sha256(self, x=b''):
        return _FakeDigest(_H['sha'](x))


def setup(ex):
    T, E, S, K, B = _mods()
    for m in (T, E, S, B):
        shims.install(m, int=shims.IntShim, bytes=shims.BytesShim)
    shims.install(S, BytesIO=shims.SBytesIO, Key=FakeKey, Signature=FakeSig, _logger=NullLog())
    _H.clear()
    _H.update(d=stubs.HashStub('dsha', 32), h160=stubs.HashStub('h160', 20), sha=stubs.HashStub('sha', 32))
    ex.axiom_sources = list(_H.values())
    shims.install(T, double_sha256=_H['d'], hash160=_H['h160'], hashlib=_FakeHashlib(), Key=FakeKey, Signature=FakeSig,
                  Address=FakeAddress, _logger=NullLog(), BytesIO=shims.SBytesIO)
    for nm in ('raw', 'witness_data'):
        shims.rewrite_function(T.Transaction, nm)
    shims.rewrite_function(T.Input, 'update_scripts')


def _eqb(a, b):
    if len(a) != len(b):
        return False
    if len(a) == 0:
        return True
    return a == b


def cs(n):
    return wire.compact_size(n)


def unlocking_script(ex, name, kind):
    if kind == 'empty':
        return b''
    if kind == 'sig_pubkey':
        sl = ex.choose(name + '_siglen', [71, 72])
        sig = b'\x30' + ex.bytes(name + '_sig', sl - 1)
        key = ex.bytes(name + '_keyprefix', 1) + ex.bytes(name + '_key', 32)
        ex.assume(s_or(key[0] == 2, key[0] == 3))
        return bytes([sl]) + sig + b'\x21' + key
    if kind == 'sig_pubkey_uncompressed':
        sl = ex.choose(name + '_siglen', [71, 72])
        sig = b'\x30' + ex.bytes(name + '_sig', sl - 1)
        return bytes([sl]) + sig + b'\x41\x04' + ex.bytes(name + '_keyx', 32) + ex.bytes(name + '_keyy', 32)
    if kind == 'sym1':
        return ex.bytes(name + '_raw', 1)
    if kind == 'sym2':
        return ex.bytes(name + '_raw', 2)
    raise ValueError(kind)


def locking_script(ex, name, kind):
    if kind in ('p2pkh', 'p2sh', 'p2wpkh', 'p2wsh'):
        h = ex.bytes(name + '_h', 32 if kind == 'p2wsh' else 20)
        # get_data_type tests the first byte of every data item against the key / signature prefixes before it looks
        # at the length: for 20/32-byte hashes the outcome is the same either way, excluding the four prefixes only
        # removes five-fold path splitting per hash
        ex.assume(s_not(s_or(h[0] == 0x30, h[0] == 2, h[0] == 3, h[0] == 4)))
        return {'p2pkh': b'\x76\xa9\x14' + h + b'\x88\xac', 'p2sh': b'\xa9\x14' + h + b'\x87', 'p2wpkh': b'\x00\x14' + h,
                'p2wsh': b'\x00\x20' + h}[kind]
    if kind == 'p2pkh':
        return b'\x76\xa9\x14' + ex.bytes(name + '_h', 20) + b'\x88\xac'
    if kind == 'p2sh':
        return b'\xa9\x14' + ex.bytes(name + '_h', 20) + b'\x87'
    if kind == 'p2wpkh':
        return b'\x00\x14' + ex.bytes(name + '_h', 20)
    if kind == 'p2wsh':
        return b'\x00\x20' + ex.bytes(name + '_h', 32)
    if kind == 'empty':
        return b''
    if kind == 'sym1':
        return ex.bytes(name + '_raw', 1)
    if kind == 'sym2':
        return ex.bytes(name + '_raw', 2)
    raise ValueError(kind)


def witness_stack(ex, name, kind):
    if kind == 'none':
        return []
    if kind == 'sig_pubkey':
        sig = b'\x30' + ex.bytes(name + '_wsig', 70)
        key = ex.bytes(name + '_wkeyprefix', 1) + ex.bytes(name + '_wkey', 32)
        ex.assume(s_or(key[0] == 2, key[0] == 3))
        return [sig, key]
    if kind == 'sym1':
        return [ex.bytes(name + '_witem', 1)]
    if kind == 'emptyitem':
        return [b'']
    raise ValueError(kind)


def build_raw(ex, segwit, max_in, max_out, ukinds, lkinds, wkinds, min_in=1, mixed=False):
    """assemble a serialized transaction from a symbolic shape and symbolic content"""
    nin = ex.choose('nin', list(range(min_in, max_in + 1)))
    nout = ex.choose('nout', list(range(1, max_out + 1)))
    version = ex.bytes('version', 4)
    locktime = ex.bytes('locktime', 4)
    body_in, body_out, wit = b'', b'', b''
    fields = []
    wit_items = []
    for k in range(nin):
        txid = ex.bytes('txid%d' % k, 32)
        ex.assume(s_not(s_and(*[b == 0 for b in txid])))      # not a coinbase outpoint
        vout = ex.bytes('vout%d' % k, 4)
        seq = ex.bytes('seq%d' % k, 4)
        legacy_input = (not segwit) or (mixed and k == 0)
        uk = ex.choose('ukind%d' % k, ukinds if legacy_input else ['empty'])
        us = unlocking_script(ex, 'in%d' % k, uk)
        body_in = body_in + txid + vout + cs(len(us)) + us + seq
        if segwit:
            wk = ex.choose('wkind%d' % k, ['none'] if legacy_input else wkinds)
            ws = witness_stack(ex, 'in%d' % k, wk)
            wit = wit + cs(len(ws))
            for item in ws:
                wit = wit + cs(len(item)) + item
                wit_items.append(item)
        fields.append((txid, vout, seq, us))
    outs = []
    for k in range(nout):
        val = ex.bytes('val%d' % k, 8)
        ex.assume(val[7] < 0x80)
        lk = ex.choose('lkind%d' % k, lkinds)
        ls = locking_script(ex, 'out%d' % k, lk)
        body_out = body_out + val + cs(len(ls)) + ls
        outs.append((val, ls))
    core_ser = version + cs(nin) + body_in + cs(nout) + body_out
    raw = (version + b'\x00\x01' + cs(nin) + body_in + cs(nout) + body_out + wit + locktime) if segwit else (core_ser + locktime)
    stripped = core_ser + locktime
    return dict(raw=raw, stripped=stripped, nin=nin, nout=nout, version=version, locktime=locktime, fields=fields, outs=outs,
                wit_items=wit_items)


def h_block_dict(ex, segwit, ukinds, lkinds, wkinds):
    """Block.parse_transaction_dict (the dictionary reader): rawtx is the transaction's bytes, txid is the hash of the
    witness-stripped serialization, fields are the serialized fields - same as the Transaction-object reader"""
    T, E, S, K, B = _mods()
    H = _H['d'] if not ex.concrete else E.double_sha256
    r = build_raw(ex, segwit, 1, 1, ukinds, lkinds, wkinds)
    trailer = b'\x01\x00\x00\x00'          # bytes of a following transaction must not be touched
    data = r['raw'] + trailer
    blk = B.Block.__new__(B.Block)
    blk.txs_data = shims.SBytesIO(data) if not ex.concrete else __import__('io').BytesIO(bytes(data))
    blk.tx_count, blk.transactions, blk.height, blk.network = 2, [], 100, None
    if not ex.concrete:
        shims.install(B, double_sha256=H, BytesIO=shims.SBytesIO)
    tx = blk.parse_transaction_dict(0)
    ex.check(tx is not False, 'dict-reader-returns-transaction')
    ex.check(_eqb(tx['rawtx'], r['raw']), 'dict-rawtx-is-serialized-transaction')
    ex.check(_eqb(tx['txid'], H(r['stripped'])[::-1]), 'dict-txid-is-hash-of-stripped-serialization')
    ex.check(blk.txs_data.tell() == len(r['raw']), 'dict-reader-consumes-exactly-one-transaction')
    ex.check(tx['locktime'] == shims.IntShim.from_bytes(r['locktime'], 'little'), 'dict-locktime')
    ex.check(_eqb(tx['inputs'][0]['unlocking_script'], r['fields'][0][3]) and _eqb(tx['outputs'][0]['lock_script'], r['outs'][0][1]),
             'dict-scripts')
    ex.check(tx['outputs'][0]['value'] == shims.IntShim.from_bytes(r['outs'][0][0], 'little'), 'dict-output-value')


def _concrete_stubs(ex):
    """replay runs the real parsing / serialization code, but keys and signatures inside scripts are arbitrary bytes in
    a solver model (not curve points / DER): the recording stubs for Key / Signature / Address stay in place"""
    if not ex.concrete:
        return
    T, E, S, K, B = _mods()
    _H.update(h160=E.hash160, sha=lambda b: __import__('hashlib').sha256(bytes(b)).digest())
    S.Key, S.Signature = FakeKey, FakeSig
    T.Key, T.Signature, T.Address = FakeKey, FakeSig, FakeAddress


def h_tx_roundtrip(ex, segwit, max_in, max_out, ukinds, lkinds, wkinds, min_in=1, mixed=False):
    T, E, S, K, B = _mods()
    _concrete_stubs(ex)
    H = _H['d'] if not ex.concrete else E.double_sha256
    r = build_raw(ex, segwit, max_in, max_out, ukinds, lkinds, wkinds, min_in, mixed)
    raw, stripped, nin, nout, version, locktime = r['raw'], r['stripped'], r['nin'], r['nout'], r['version'], r['locktime']
    fields, outs, wit_items = r['fields'], r['outs'], r['wit_items']
    stream = shims.SBytesIO(raw) if not ex.concrete else __import__('io').BytesIO(bytes(raw))
    try:
        t = T.Transaction.parse_bytesio(stream, strict=True)
    except T.TransactionError:
        single_push = s_or(*([s_and(f[3][0] == 1) for f in fields if len(f[3]) == 2] or [False]))
        ex.check(False, 'well-formed-transaction-accepted',
                 known=kf('C06-empty-locking-script-rejected', any(len(o[1]) == 0 for o in outs)) +
                 kf('C06-single-push-scriptsig-rejected', single_push))
        return
    except S.ScriptError:
        trunc = s_or(*[_truncated_push(b) for b in [f[3] for f in fields] + [o[1] for o in outs] + wit_items if 1 <= len(b) <= 2])
        ex.check(False, 'well-formed-transaction-accepted', known=kf('C06-truncated-push-script-rejected', trunc))
        return
    out = t.raw()
    zero1 = s_or(*[(len(b) == 1) and (b[0] == 0) for b in [f[3] for f in fields] + [o[1] for o in outs] + wit_items])
    hexy = s_or(*([_looks_hex(b) for b in [f[3] for f in fields] + [o[1] for o in outs] if len(b) in (1, 2)] + [_looks_hex(f[0]) for f in fields]))
    known = kf('C06-single-zero-byte-script-roundtrip', zero1) + kf('C06-bytes-of-hex-digits-are-hex-decoded', hexy)
    ex.check(_eqb(out, raw), 'parse-serialize-identity', known=known)
    # fields
    ex.check(t.locktime == shims.IntShim.from_bytes(locktime, 'little'), 'locktime')
    ex.check(_eqb(t.version, version[::-1]), 'version')
    ok = len(t.inputs) == nin and len(t.outputs) == nout
    ex.check(ok, 'counts')
    if ok:
        for k in range(nin):
            i = t.inputs[k]
            ex.check(s_and(_eqb(i.prev_txid, fields[k][0][::-1]), _eqb(i.output_n, fields[k][1][::-1]),
                           i.sequence == shims.IntShim.from_bytes(fields[k][2], 'little')), 'input-fields', known=known)
        for k in range(nout):
            ex.check(t.outputs[k].value == shims.IntShim.from_bytes(outs[k][0], 'little'), 'output-value')
    # txid = hash of the witness-stripped serialization (byte-reversed, hex)
    want_txid = H(stripped)[::-1]
    got = t.txid
    if ex.concrete:
        ex.check(got == bytes(want_txid).hex(), 'txid-is-hash-of-stripped-serialization', known=known)
    else:
        ex.check(core.SStr.lift(got) == want_txid.hex(), 'txid-is-hash-of-stripped-serialization', known=known)


def _truncated_push(b):
    """a 1-2 byte script whose (last) push opcode announces more data than follows"""
    f = b[0]
    if len(b) == 1:
        return s_and(f >= 1, f <= 0x4e)
    g = b[1]
    return s_or(s_and(f >= 2, f <= 0x4b), f == 0x4d, f == 0x4e, s_and(f == 0x4c, g >= 1), s_and(s_or(f == 0, f > 0x4e, f == 1), False),
                s_and(s_or(f == 0, f > 0x4e), g >= 1, g <= 0x4e))


def _looks_hex(b):
    def ishex(c):
        return s_or(s_and(c >= 48, c <= 57), s_and(c >= 97, c <= 102), s_and(c >= 65, c <= 70))
    return s_and(len(b) % 2 == 0, *[ishex(c) for c in b])


def h_target(ex):
    """Block.target for every compact 'bits' value: mantissa * 256^(exponent-3) per the protocol definition"""
    T, E, S, K, B = _mods()
    bits = ex.bytes('bits', 4)
    ex.assume(bits[0] <= 34)
    ex.assume(bits[0] >= 3)
    blk = B.Block.__new__(B.Block)
    blk.bits = bits
    blk.bits_int = shims.IntShim.from_bytes(bits, 'big')
    got = blk.target
    e = bits[0]
    m = shims.IntShim.from_bytes(bits[1:], 'big')
    ok = True
    for k in range(3, 35):          # target = mantissa * 256^(exponent-3)
        ok = s_and(ok, core.s_implies(e == k, got == m * (1 << (8 * (k - 3)))))
    ex.check(ok, 'target-from-compact-bits')


def h_input_witness_bytes(ex, lens):
    """Input(witnesses=<witness stack in wire format>) - the form the wallet and the cache reload paths use: every item
    comes back with exactly its bytes, also items of 253 and more bytes (3-byte CompactSize length)"""
    T, E, S, K, B = _mods()
    _concrete_stubs(ex)
    n = ex.choose('items', [1, 2])
    items = []
    for k in range(n):
        ln = ex.choose('len%d' % k, lens)
        if ln <= 4:
            items.append(ex.bytes('item%d' % k, ln) if ln else b'')
        else:
            items.append(ex.bytes('item%d_head' % k, 2) + bytes((i * 5 + k) & 0xff for i in range(ln - 4)) + ex.bytes('item%d_tail' % k, 2))
    wb = cs(n)
    for it in items:
        wb = wb + cs(len(it)) + it
    txid = ex.bytes('txid', 32)
    ex.assume(txid[0] >= 0x80)          # (a txid of ASCII hex digits would be hex-decoded by to_bytes: listed finding)
    inp = T.Input(prev_txid=txid if not ex.concrete else bytes(txid), output_n=0, witnesses=wb if not ex.concrete else bytes(wb),
                  witness_type='segwit', script_type='p2wsh', strict=False, value=1000, network='bitcoin')
    ex.check(len(inp.witnesses) == n, 'witness-stack-item-count')
    for k, it in enumerate(items):
        if k < len(inp.witnesses):
            got = inp.witnesses[k]
            # (an empty item is represented as the single byte 00 inside the library: listed representation, C18)
            ex.check(_eqb(got, it) if len(it) else (len(got) in (0, 1)), 'witness-item-bytes-unchanged')


def jobs(tier):
    q = tier == 'quick'
    J = []
    sym = 'sym1' if q else 'sym2'
    for segwit in (False, True):
        tag = 'segwit' if segwit else 'legacy'
        # standard shapes, counts 1..2 (thorough 3)
        for nin in [1, 2]:          # (3 inputs x 3 outputs x 5 script kinds: no verdict within 100 min per job - not registered)
            for uk0 in (['sig_pubkey'] if segwit is False else ['empty']) + (['empty'] if not segwit else []):
                if q and nin == 2 and uk0 == 'sig_pubkey':
                    continue            # 4000+ paths / 15 min: thorough tier only
                j = Job('tx_templates_%s_%din_%s' % (tag, nin, uk0), h_tx_roundtrip, W=80, setup=setup, budget_s=6000,
                        params=dict(segwit=segwit, max_in=nin, min_in=nin, max_out=(2 if nin == 1 else 1), ukinds=[uk0],
                                    lkinds=['p2pkh', 'p2wsh', 'empty'] if (q or (nin == 2 and uk0 == 'sig_pubkey')) else ['p2pkh', 'p2sh', 'p2wpkh', 'p2wsh', 'empty'],
                                    wkinds=['none', 'sig_pubkey', 'emptyitem']))
                j.cost = 100
                J.append(j)
        # one fully symbolic script / witness item at a time, everything else standard
        for where in ('in', 'out') + (('wit',) if segwit else ()):
            if where == 'in' and segwit:
                continue
            j = Job('tx_symbolic_%s_%s' % (where, tag), h_tx_roundtrip, W=80, setup=setup, budget_s=6000,
                    params=dict(segwit=segwit, max_in=1, max_out=1, ukinds=[sym] if where == 'in' else ['empty'],
                                lkinds=[sym] if where == 'out' else ['p2pkh'], wkinds=['sym1'] if where == 'wit' else ['none', 'sig_pubkey']))
            j.cost = 50
            J.append(j)
    # segwit-format transaction whose first input is a signed legacy P2PKH input (empty witness) and whose second is P2WPKH
    J.append(Job('tx_uncompressed_key_legacy', h_tx_roundtrip, W=80, setup=setup, budget_s=6000,
                 params=dict(segwit=False, max_in=1, min_in=1, max_out=1, ukinds=['sig_pubkey_uncompressed'], lkinds=['p2pkh'], wkinds=['none'])))
    J.append(Job('tx_mixed_segwit', h_tx_roundtrip, W=80, setup=setup, budget_s=6000,
                 params=dict(segwit=True, mixed=True, max_in=2, min_in=2, max_out=1, ukinds=['sig_pubkey'], lkinds=['p2pkh'], wkinds=['sig_pubkey'])))
    for segwit in (False, True):
        J.append(Job('block_dict_reader_%s' % ('segwit' if segwit else 'legacy'), h_block_dict, W=80, setup=setup, budget_s=3000,
                     params=dict(segwit=segwit, ukinds=['empty', 'sig_pubkey', sym], lkinds=['p2pkh', 'empty', sym], wkinds=['none', 'sig_pubkey', 'sym1', 'emptyitem'])))
    J.append(Job('input_witness_bytes', h_input_witness_bytes, W=80, setup=setup, budget_s=1500,
                 params=dict(lens=[0, 1, 2, 252, 253, 300] if q else [0, 1, 2, 75, 76, 252, 253, 254, 300, 520])))
    J.append(Job('block_target', h_target, W=300, setup=setup, budget_s=1500))
    return J
