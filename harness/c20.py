"""C20 - the service layer fails over between providers and never fabricates answers.

Real code executed by CrossHair (bitcoinlib/services/services.py, unmodified): Service._provider_execute,
Service._reset_results and the public wrappers getbalance, getutxos, gettransaction, gettransactions,
getrawtransaction, sendrawtransaction, estimatefee, blockcount, mempool, isspent - on a Service object made with
Service.__new__ whose providers are fake client classes injected into the package `bitcoinlib.services` and whose
cache is a fake object (harness/ch/c20_common.py).

Layout: harness/ch/c20_common.py (fakes + the fail-over specification), c20_core.py (driver/oracle for
_provider_execute), c20_wrap.py (drivers/oracles for the wrappers and the cache round trip).  Every CrossHair
condition is a function in harness/ch/c20_conds.py whose body is one call into those drivers; that file is GENERATED
from the table below (`cd /verif && .venv/bin/python -m harness.c20 --gen`); jobs() refuses to run when it is stale.
"""
import os
import sys

from vtlib.api import Job

PROPERTY = 'C20'
HERE = os.path.dirname(os.path.abspath(__file__))
CONDS_FILE = os.path.join(HERE, 'ch', 'c20_conds.py')

ASSUMPTIONS = [
    'cache jobs (SX): the cache database is the symx.sqlmini stand-in (filter / order_by evaluated over rows with symbolic block height, block position, amounts, sequence numbers; one relevant node per cached transaction); paging counterexamples are replayed on a real sqlite cache filled through store_transaction / store_address',
    'CrossHair 0.0.110 symbolic execution (z3) of the real functions; all condition parameters are ints/bools',
    'provider clients are replaced by the fake class c20_common.FakeClient registered as bitcoinlib.services.c20fake: a '
    'provider\'s behaviour is one fixed outcome per condition (answers / raises ClientError (.msg) / raises an '
    'exception without .msg / answers False / raises AttributeError from the method / does not have the method / is '
    'configured with the placeholder api key) and it gives the same answer every time it is asked; answers of '
    'different providers differ, so the oracle can tell whose answer came back; in the _provider_execute conditions the '
    'answers are valid but empty-looking data (0, [], \'\', ()) - only the value False is documented as "no answer"',
    'Service.__init__ is skipped (it reads providers.json, opens the SQL cache and calls blockcount over the network): '
    'Service.__new__ + the attributes __init__ sets; network objects are the real Network(\'bitcoinlib_test\') / '
    'Network(\'bitcoin\')',
    'Service.cache is replaced by c20_common.FakeCache: every getter returns a solver-chosen hit/miss and value (miss is '
    'False / None / [] as in the real class), every store_* call is recorded; for the round trip a dict-backed '
    'MemCache that returns what was stored (fee buckets <=1 / <=5 / >5 blocks as documented in Cache.estimatefee)',
    'services._logger and baseclient._logger are null objects, services.datetime.now() is a frozen instant, '
    'services.time.time() a constant, services.random gives random()=0.5 (priorities are strict, it never decides) '
    'and shuffle()=reverse (ignore_priority condition)',
    'oracle: harness/ch/c20_common.spec_failover (providers in descending priority; MUST_OK when fewer than max_errors '
    'failing providers precede the first answering one; must fail when nobody answers or max_errors raising providers '
    'come first; when the limit is reached only by counting empty answers both outcomes are accepted, a success must '
    'still be the first answering provider\'s answer) + per wrapper the documented cache rule; "fail" = ServiceError '
    'or the value False (for isspent, whose False means "unspent", only an exception)',
    'estimatefee: clamping a provider\'s fee to the network\'s fee_min/fee_max is accepted as documented behaviour, '
    'a provider fee of 0 is not modelled (fee >= 1); gettransaction(s)/getutxos: transactions are opaque objects '
    'without inputs/outputs, so transaction_update_spents has nothing to rewrite',
]
BOUNDS = {
    'quick': 'Cache (SX): _parse_db_transaction with every version / locktime / sequence / outpoint index (32 bit) and amounts <= 21e14; gettransactions(after_txid) over every placement of <= 3 cached transactions (height 1..10^6, position 0..5000). _provider_execute: 3 providers x outcomes {answer, ClientError, False, AttributeError raised, method '
             'missing} x all 6 strict priority orders x max_errors 1..4 x max_providers 1|2|3; plus outcome set {answer, '
             'exception without .msg, False, method missing}, ignore_priority, one provider without api key (smaller '
             'ranges, see table).  Wrappers: 2 providers x outcomes {answer, ClientError, False} x max_errors 1..2, '
             'min_providers 1..2 where the wrapper looks at it, cache hit/miss with symbolic cached values, symbolic '
             'amounts/fees/block counts; lists of 0..2 cached + 0..2 provider items, limit in {1,2,20}; getbalance: '
             '1..2 addresses, 1..2 addresses per request',
    'thorough': 'quick + _provider_execute with 3 providers x all 6 outcome kinds, and 4 providers x {answer, '
                'ClientError, False, AttributeError} x all 24 priority orders x max_errors 1..4 x max_providers 1..2; '
                'every wrapper condition also with 3 providers and max_errors 1..3',
}
OUTSIDE = ('Of the real Cache class only _parse_db_transaction (one input, one output) and gettransactions(after_txid=..) '
           'are executed (SX jobs sx_cache_*, harness/c20sx.py); store_* (ORM writes), expiry, getutxos / getblock / '
           'getblocktransactions paging and the real provider clients / HTTP layer are not executed; providers '
           'that change behaviour between two calls (flaky), time-outs as such (modelled as an exception), equal '
           'priorities (random tie-break), more than 4 providers, getblock/getrawblock/getinfo/getinputvalues; '
           'blockcount with an expired cached count present is checked for counts in 1..4 only (the library formats '
           'both numbers into a log message, which CrossHair cannot bound symbolically); the interaction "blockcount() '
           'called inside getbalance/gettransactions goes to the providers and resets Service.results" (the fake cache '
           'always has a current block count in those two conditions); semantic validity of provider data (wrong '
           'txid, malformed fields) beyond the one observation listed in UNREGISTERED')


class Cond:
    def __init__(self, name, params, pre, call, proves, tiers, cost, doc=''):
        self.name, self.params, self.pre, self.call, self.proves = name, params, pre, call, proves
        self.tiers, self.cost, self.doc = tiers, cost, doc

    @property
    def func(self):
        return 'chk_' + self.name

    @property
    def timeout(self):
        return int(max(150, 4 * self.cost))


Q, T = ('quick', 'thorough'), ('thorough',)
# measured seconds (4 CrossHair processes in parallel on the 16-core box); ch_timeout = max(150, 4 x cost)
PE4_COST = {(1, 1): 52, (1, 2): 90, (2, 1): 111, (2, 2): 197, (3, 1): 132, (3, 2): 245, (4, 1): 144, (4, 2): 252}
WRAP_COST = {
    2: dict(sendrawtransaction=2, mempool=2, getrawtransaction=3, gettransaction=3, getbalance=14, getbalance_limit=2,
            estimatefee=9, estimatefee_limit=2, estimatefee_limit_nodefault=2, blockcount=3, blockcount_cached=24,
            isspent=38, isspent_limit=2, getutxos_minp1=32, getutxos_minp2=24, gettransactions_addr0=26,
            gettransactions_addr1=25, gettransactions_addr2=4, gettransactions_nocache=81, cache_roundtrip=5),
    3: dict(sendrawtransaction=3, mempool=3, getrawtransaction=5, gettransaction=5, getbalance=22, getbalance_limit=3,
            estimatefee=18, estimatefee_limit=3, estimatefee_limit_nodefault=5, blockcount=4, blockcount_cached=64,
            isspent=87, isspent_limit=3, getutxos_minp1=90, getutxos_minp2=67, gettransactions_addr0=77,
            gettransactions_addr1=74, gettransactions_addr2=8, gettransactions_nocache=257, cache_roundtrip=9),
}


def _o(k, hi):
    return ', '.join('o%d: int' % i for i in range(k)), ' and '.join('0 <= o%d <= %d' % (i, hi) for i in range(k))


def _p(k):
    rng = ' and '.join('0 <= p%d <= %d' % (i, k - 1) for i in range(k))
    ne = ' and '.join('p%d != p%d' % (i, j) for i in range(k) for j in range(i + 1, k))
    return ', '.join('p%d: int' % i for i in range(k)), rng + ' and ' + ne


def _lst(prefix, k):
    return '[' + ', '.join('%s%d' % (prefix, i) for i in range(k)) + ']'


def conditions():
    out = []

    def add(*a, **kw):
        out.append(Cond(*a, **kw))

    # ---- 1. Service._provider_execute ------------------------------------------------------------------------------
    core = ('(a) a returned value is the answer of the highest-priority answering provider; (b) it is returned whenever '
            'fewer than max_errors failing providers precede it; (c) the call fails (ServiceError / False) when nobody '
            'answers or max_errors raising providers come first; results/errors/resultcount bookkeeping; providers '
            'asked in priority order, at most once')
    op, oq = _o(3, 4)
    pp, pq = _p(3)
    for mp, cost in ((1, 50), (2, 65), (3, 72)):
        add('pe3_mp%d' % mp, '%s, %s, max_errors: int' % (op, pp), [oq, pq, '1 <= max_errors <= 4'],
            'K._core(%s, %s, max_errors, %d)' % (_lst('o', 3), _lst('p', 3), mp),
            '_provider_execute, 3 providers, outcomes {answer, ClientError, False, AttributeError, no method}, '
            'max_providers=%d: %s' % (mp, core), ('quick',), cost)
    op, oq = _o(3, 5)
    for mp, cost in ((1, 72), (2, 96), (3, 96)):
        add('pe3x_mp%d' % mp, '%s, %s, max_errors: int' % (op, pp), [oq, pq, '1 <= max_errors <= 4'],
            'K._core(%s, %s, max_errors, %d)' % (_lst('o', 3), _lst('p', 3), mp),
            'same with all 6 outcome kinds (adds: exception without .msg), max_providers=%d' % mp, T, cost)
    op, oq = _o(3, 3)
    add('pe3_plain', '%s, %s, max_errors: int, max_providers: int' % (op, pp),
        [oq, pq, '1 <= max_errors <= 3 and 1 <= max_providers <= 2'],
        'K._core(%s, %s, max_errors, max_providers, amap=K.ALPHA_B)' % (_lst('o', 3), _lst('p', 3)),
        '_provider_execute, outcomes {answer, exception without .msg, False, no method}: ' + core, Q, 45)
    add('pe3_ignore_priority', '%s, %s, max_errors: int, max_providers: int' % (op, pp),
        [oq, pq, '1 <= max_errors <= 3 and 1 <= max_providers <= 2'],
        'K._core(%s, %s, max_errors, max_providers, ignore_priority=True)' % (_lst('o', 3), _lst('p', 3)),
        'ignore_priority=True with shuffle()=reverse: same properties along the shuffled order', Q, 44)
    op, oq = _o(3, 2)
    add('pe3_apikey', 'kp: int, %s, %s, max_errors: int, max_providers: int' % (op, pp),
        ['0 <= kp <= 2', oq, pq, '1 <= max_errors <= 3 and 1 <= max_providers <= 2'],
        'K._core(%s, %s, max_errors, max_providers, kp=kp)' % (_lst('o', 3), _lst('p', 3)),
        'provider kp has the placeholder api key: it is never called and does not count as an error', Q, 57)
    op, oq = _o(4, 3)
    pp4, pq4 = _p(4)
    for me in (1, 2, 3, 4):
        for mp in (1, 2):
            add('pe4_me%d_mp%d' % (me, mp), '%s, %s' % (op, pp4), [oq, pq4],
                'K._core(%s, %s, %d, %d)' % (_lst('o', 4), _lst('p', 4), me, mp),
                '_provider_execute, 4 providers, outcomes {answer, ClientError, False, AttributeError}, all 24 orders, '
                'max_errors=%d, max_providers=%d' % (me, mp), T, PE4_COST[(me, mp)])

    # ---- 2./3. wrappers and cache --------------------------------------------------------------------------------
    for k, sfx, tiers in ((2, '', Q), (3, '_3', T)):
        wc = WRAP_COST[k]
        op, oq = _o(k, 2)
        ol = _lst('o', k)
        me = '1 <= max_errors <= %d' % k
        tail = '%s, max_errors: int' % op
        nprov = '%d providers' % k
        for nm, which, hit in (('sendrawtransaction', 0, 0), ('mempool', 1, 0), ('getrawtransaction', 2, 1)):
            add(nm + sfx, ('hit: bool, ' if hit else '') + tail + ', max_providers: int',
                [oq, me + ' and 1 <= max_providers <= 2'],
                'W._passthrough(%d, %s, %s, max_errors, max_providers)' % (which, 'hit' if hit else 'False', ol),
                '%s (%s): returns the selected provider\'s object itself%s; failure is passed on' %
                (nm, nprov, ', or the cached raw transaction on a hit (no provider asked)' if hit else ''), tiers, wc[nm])
        add('gettransaction' + sfx, 'hit: bool, minp: int, ' + tail, ['1 <= minp <= 2', oq, me],
            'W._gettransaction(hit, minp, %s, max_errors, False)' % ol,
            'gettransaction (%s): cached object on a hit (min_providers<=1), else the selected provider\'s object, '
            'unchanged; stored in the cache iff returned; nothing stored on failure' % nprov, tiers, wc['gettransaction'])
        add('getbalance' + sfx, 'n_addr: int, apr: int, hit0: bool, hit1: bool, c0: int, c1: int, x0: int, x1: int, ' + tail,
            ['1 <= n_addr <= 2 and 1 <= apr <= 2 and 0 <= c0 and 0 <= c1 and 0 <= x0 and 0 <= x1', oq, me],
            'W._getbalance(n_addr, apr, hit0, hit1, c0, c1, x0, x1, %s, max_errors, \'main\')' % ol,
            'getbalance (%s, error limit not reached): the total is, per address, the selected provider\'s balance or the '
            'cached balance of an up-to-date cache entry; ServiceError is passed on' % nprov, tiers, wc['getbalance'])
        add('getbalance_limit' + sfx, 'n_addr: int, apr: int, x0: int, x1: int, ' + tail,
            ['1 <= n_addr <= 2 and 1 <= apr <= 2 and 0 <= x0 and 0 <= x1', oq, me],
            'W._getbalance(n_addr, apr, False, False, 0, 0, x0, x1, %s, max_errors, \'limit\')' % ol,
            'getbalance (%s), error limit reached before any answer: must fail, not return a number' % nprov, tiers, wc['getbalance_limit'])
        add('estimatefee' + sfx, 'blocks: int, prio: int, hit: bool, cfee: int, f: int, minp: int, ' + tail,
            ['1 <= blocks <= 30 and 0 <= prio <= 3 and 0 <= cfee and 1 <= f and 1 <= minp <= 2', oq, me],
            'W._estimatefee(blocks, prio, hit, cfee, f, minp, %s, max_errors, \'main\', F.NET_TEST)' % ol,
            'estimatefee (%s, error limit not reached): cached fee on a hit, else the selected provider\'s fee clamped to '
            'fee_min/fee_max, asked and stored under the blocks value derived from priority' % nprov, tiers, wc['estimatefee'])
        add('estimatefee_limit' + sfx, 'blocks: int, prio: int, f: int, ' + tail,
            ['1 <= blocks <= 30 and 0 <= prio <= 3 and 1 <= f', oq, me],
            'W._estimatefee(blocks, prio, False, 0, f, 1, %s, max_errors, \'limit\', F.NET_TEST)' % ol,
            'estimatefee (%s), error limit reached, network with fee_default: must fail, not return the default' % nprov,
            tiers, wc['estimatefee_limit'])
        add('estimatefee_limit_nodefault' + sfx, 'blocks: int, prio: int, f: int, ' + tail,
            ['1 <= blocks <= 30 and 0 <= prio <= 3 and 1 <= f', oq, me],
            'W._estimatefee(blocks, prio, False, 0, f, 1, %s, max_errors, \'limit\', F.NET_BTC)' % ol,
            'same on network bitcoin (no fee_default): fails with ServiceError', tiers, wc['estimatefee_limit_nodefault'])
        add('blockcount' + sfx, 'cbc: int, has_prev: bool, prev: int, stale: bool, n: int, ' + tail,
            ['0 <= cbc and 1 <= prev and 1 <= n and (has_prev or stale)', oq, me],
            'W._blockcount(cbc, 0, has_prev, prev, stale, n, %s, max_errors)' % ol,
            'blockcount (%s, no expired count in the cache): unexpired cached count, or the count remembered for '
            'BLOCK_COUNT_CACHE_TIME, or the selected provider\'s count (never lower than the remembered one); only the '
            'returned value is stored' % nprov, tiers, wc['blockcount'])
        add('blockcount_cached' + sfx, 'cnever: int, has_prev: bool, prev: int, n: int, ' + tail,
            ['1 <= cnever <= 4 and 1 <= prev and 1 <= n <= 4', oq, me],
            'W._blockcount(0, cnever, has_prev, prev, True, n, %s, max_errors, off=2, small=True)' % ol,
            'blockcount (%s) with an expired cached count: incl. the "provider count lower than cached: ask 5 more '
            'times" branch - result is a provider answer / the remembered count / a failure' % nprov, tiers, wc['blockcount_cached'])
        add('isspent' + sfx, 'hit: bool, n_out: int, output_n: int, state: int, a: int, ' + tail,
            ['0 <= n_out <= 2 and 0 <= output_n <= 2 and 0 <= state <= 2 and 0 <= a <= 1', oq, me],
            'W._isspent(hit, n_out, output_n, state, a, %s, max_errors, \'main\')' % ol,
            'isspent (%s, error limit not reached): cached spent flag when known, else bool of the selected provider\'s '
            '0/1; ServiceError passed on' % nprov, tiers, wc['isspent'])
        add('isspent_limit' + sfx, 'a: int, ' + tail, ['0 <= a <= 1', oq, me],
            'W._isspent(False, 0, 0, 0, a, %s, max_errors, \'limit\')' % ol,
            'isspent (%s), error limit reached: must raise (its False means "unspent")' % nprov, tiers, wc['isspent_limit'])
        for minp in (1, 2):
            add('getutxos_minp%d%s' % (minp, sfx), 'n_c: int, n_p: int, limit_i: int, after: bool, v0: int, v1: int, ' + tail,
                ['0 <= n_c <= 2 and 0 <= n_p <= 2 and 0 <= limit_i <= 2 and 0 <= v0 and 0 <= v1', oq, me],
                'W._getutxos(n_c, n_p, limit_i, after, %d, v0, v1, %s, max_errors)' % (minp, ol),
                'getutxos (%s, min_providers=%d): cached utxos + the selected provider\'s utxos (asked for what follows '
                'the last cached one), ServiceError when the providers fail; stored utxos/balance consistent with the '
                'result' % (nprov, minp), tiers, wc['getutxos_minp%d' % minp])
        for st, what in ((0, 'address not in cache'), (1, 'address in cache but behind'), (2, 'address up to date')):
            add('gettransactions_addr%d%s' % (st, sfx), 'n_c: int, n_p: int, limit_i: int, after: bool, ' + tail,
                ['0 <= n_c <= 2 and 0 <= n_p <= 2 and 0 <= limit_i <= 2', oq, me],
                'W._gettransactions(n_c, n_p, limit_i, %d, after, 1, %s, max_errors)' % (st, ol),
                'gettransactions (%s, min_providers=1, %s): cached transactions (+ the selected provider\'s, asked with '
                'the remaining limit after the last cached txid) as the same objects in order; cache alone when full '
                'or up to date; ServiceError when the providers fail; only returned objects are stored' % (nprov, what),
                tiers, wc['gettransactions_addr%d' % st])
        add('gettransactions_nocache' + sfx, 'n_c: int, n_p: int, limit_i: int, addr_state: int, after: bool, ' + tail,
            ['0 <= n_c <= 2 and 0 <= n_p <= 2 and 0 <= limit_i <= 2 and 0 <= addr_state <= 2', oq, me],
            'W._gettransactions(n_c, n_p, limit_i, addr_state, after, 2, %s, max_errors)' % ol,
            'gettransactions (%s, min_providers=2): cache not consulted, exactly the selected provider\'s list' % nprov,
            tiers, wc['gettransactions_nocache'])
        add('cache_roundtrip' + sfx, 'kind: int, minp: int, v: int, ' + tail,
            ['0 <= kind <= 2 and 1 <= minp <= 2 and 1000 <= v <= 100000', oq, me],
            'W._roundtrip(kind, minp, v, %s, max_errors)' % ol,
            'gettransaction / estimatefee / blockcount twice with a cache that keeps what it is given; second time all '
            'providers are down: it returns the first answer from the cache without asking anybody, and fails if the '
            'first call failed (%s)' % nprov, tiers, wc['cache_roundtrip'])

    # ---- observations: conditions that are NOT registered (see UNREGISTERED) ----------------------------------------
    op, oq = _o(3, 3)
    add('pe3_strict_limit', '%s, max_errors: int' % op, [oq, '1 <= max_errors <= 3'],
        'K._core(%s, [2, 1, 0], max_errors, 1, strict_limit=True)' % _lst('o', 3),
        'strict reading: max_errors errors of any kind before the first answer => the call fails', (), 5)
    op, oq = _o(2, 2)
    add('gettransaction_wrong_txid', '%s, max_errors: int' % op, [oq, '1 <= max_errors <= 2'],
        'W._gettransaction(False, 1, %s, max_errors, True)' % _lst('o', 2),
        'a provider answers with a transaction carrying another txid: the wrapper fails or hands it on unchanged', (), 3)
    return out


UNREGISTERED = {
    'pe3_strict_limit': 'counterexample chk_pe3_strict_limit(2, 0, 0, 1): an empty (False) answer is booked '
                        'in Service.errors but the limit is only tested when a provider raises, so with max_errors=1 '
                        '[False, answer] succeeds while [ClientError, answer] and [False, AttributeError, answer] fail. '
                        'The property statement only forbids failing early / inventing data, so this is recorded as an '
                        'inconsistency, not a violation.',
    'gettransaction_wrong_txid': 'counterexample chk_gettransaction_wrong_txid(0, 0, 1): Service.gettransaction '
                                 'overwrites tx.txid of the provider\'s answer with the requested id ("Incorrect txid '
                                 'after parsing") and stores the relabelled object in the cache.',
}

HEADER = '''"""GENERATED by harness/c20.py (python -m harness.c20 --gen) - do not edit.  One CrossHair condition per function."""
import os
import sys
sys.path.insert(0, os.path.dirname(os.path.abspath(__file__)))
import c20_common as F       # noqa
import c20_core as K         # noqa
import c20_wrap as W         # noqa
'''


def generate():
    parts = [HEADER]
    for c in conditions():
        doc = ''.join('    pre: %s\n' % p for p in c.pre)
        parts.append('\n\ndef %s(%s) -> bool:\n    """%s\n\n%s    post: _\n    """\n    return %s\n'
                     % (c.func, c.params, c.proves.replace('"""', "'''"), doc, c.call))
    return ''.join(parts)


def jobs(tier):
    with open(CONDS_FILE) as f:
        if f.read() != generate():
            raise RuntimeError('harness/ch/c20_conds.py is stale: run `.venv/bin/python -m harness.c20 --gen` in /verif')
    # expensive conditions first (the pool takes jobs in this order)
    cs = sorted([c for c in conditions() if tier in c.tiers], key=lambda c: -c.cost)
    out = []
    for c in cs:
        kfid = None
        if c.name.startswith('estimatefee_limit') and 'nodefault' not in c.name:
            kfid = 'C20-estimatefee-falls-back-to-network-default'
        elif c.name.startswith('getbalance_limit'):
            kfid = 'C20-getbalance-zero-on-error-limit'
        elif c.name.startswith('isspent_limit'):
            kfid = 'C20-isspent-failure-reported-as-unspent'
        j = Job(c.name, engine='ch', ch_file=CONDS_FILE, ch_func=c.func, ch_timeout=c.timeout, note=c.proves, known_finding=kfid)
        j.cost = c.cost
        out.append(j)
    from harness import c20sx              # cache part (engine SX over the sqlmini stand-in database)
    out += c20sx.jobs(tier)
    return out


if __name__ == '__main__':
    if '--gen' in sys.argv:
        with open(CONDS_FILE, 'w') as f:
            f.write(generate())
        print('wrote', CONDS_FILE, len(conditions()), 'conditions')
    else:
        for c in conditions():
            print('%-32s %-16s cost=%-4d timeout=%-4d %s' % (c.name, '/'.join(c.tiers) or 'unregistered', c.cost, c.timeout,
                                                             c.proves[:110]))
