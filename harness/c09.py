"""C09 - wallet key paths: path construction only.

Real code executed by CrossHair: keys.path_expand, main.get_key_structure_data (-> config.WALLET_KEY_STRUCTURES),
networks.Network.bip44_cointype (-> data/networks.json of the current tree), wallets.normalize_path,
wallets.Wallet.path_expand and the prefix of wallets.Wallet.keys_for_path up to its path_expand call, and the
request HDKey.public_master builds.

Every configuration (network x witness type x single/multisig) x request form is ONE CrossHair condition: a
function in harness/ch/c09_<family>.py whose body is a single call into harness/ch/c09_oracle.py (drivers + the
BIP/SLIP-44 specification).  The condition files are GENERATED from the table in this module
(`python -m harness.c09 --gen`, run from /verif); jobs() refuses to run when they are stale.

The database-backed part (which account / chain / index Wallet.new_keys asks for) is executed by engine SX over the
symx.sqlmini stand-in database: harness/c09sx.py.

Symbolic: account a, address_index i in [0, 2^31), change c in {0,1}, cosigner_index k in [0,15]; for the refusal
family the out-of-range values are symbolic over all ints outside the range."""
import json
import os
import sys

from vtlib.api import Job

PROPERTY = 'C09'
HERE = os.path.dirname(os.path.abspath(__file__))
CH = os.path.join(HERE, 'ch')
REPO = os.environ.get('VT_REPO', '/repo')

ASSUMPTIONS = [
    'index issuance (SX jobs): the database is the symx.sqlmini stand-in (filter_by / order_by / first evaluated over key rows with symbolic columns; validated by replay on a real sqlite wallet); keys_for_path is recorded and stopped',
    'CrossHair 0.0.110 symbolic execution (z3) of the real functions; str(int), str slicing, isdigit, split and join '
    'on symbolic values are handled by CrossHair\'s own str/int models',
    'oracle: BIP44/49/84 m/purpose\'/coin\'/account\'/change/index, BIP45 m/45\'/cosigner/change/index, BIP48 '
    'm/48\'/coin\'/account\'/script_type\'/change/index (script_type 1 = P2SH-P2WSH, 2 = P2WSH); coin types from '
    'SLIP-44 written into harness/ch/c09_oracle.py (bitcoin 0, every test network incl. regtest/signet/testnet4 1, '
    'litecoin 2, dogecoin 3); the library-private network bitcoinlib_test has no SLIP-44 entry, its documented '
    'constant 9999999 is pinned as a literal',
    'bitcoinlib.keys._logger and bitcoinlib.wallets._logger replaced by a null object',
    'wallet family: Wallet.__init__ is skipped (Wallet.__new__ + the attributes Wallet.__init__ sets from '
    'get_key_structure_data); Wallet._get_account_defaults (an SQL query choosing the default account) is replaced by '
    'the identity on (network, account_id); keys_for_path is executed up to its path_expand call (wallets.path_expand '
    'is wrapped to capture the path and stop), what follows is database work; main_key is a stub with is_private=True, '
    'depth=0 (a wallet created from a private master key)',
]
_SYM = ('account, address_index in [0, 2^31), change in {0,1}, cosigner_index in [0,15], all symbolic. Refusals: keyword '
        'values and list/str values >= 2^31 resp. change > 1: every such int; negative keyword values: every negative '
        'int; negative values inside a path list / string: the windows [-100,0), -2^31 +- 20, -10^12 +- 10 (list) and '
        '[-30,0) (string) because the real error message formatting makes CrossHair enumerate the value; too-long '
        'requests: extra level in [0,2^31) for int/list requests, [0,9] for string requests; wrong level names: 21 '
        'spellings x every position')
BOUNDS = {
    'quick': 'Index issuance (SX): every set of <= 2 existing keys (account, chain, index 0..2^31-2 symbolic, any creation order), default account 0/1, account argument None/0/1, both chains. ' + _SYM + '. Configurations: every network and every (witness type, multisig) structure appears at least once '
                    'for the request forms [] and [change, index] (11 + 11 conditions on the network x structure '
                    'diagonal); every other request form, the wallet methods, mixed witness types and the refusals on '
                    'one to three configurations (one per path shape BIP44-like / BIP45 / BIP48)',
    'thorough': 'Index issuance (SX): <= 3 existing keys. ' + _SYM + '. Configurations: [] and [change, index]: all 11 networks x 3 witness types x single/multisig (66 '
                       'each); [index], named levels, explicit template (get_key_structure_data), public-master request, '
                       'Wallet.path_expand, Wallet.keys_for_path, spelled-out full string, level_offset: one network per '
                       'SLIP-44 coin type (bitcoin, testnet, litecoin, dogecoin) x all 6 structures (keys_for_path also on '
                       'regtest and bitcoinlib_test); full string without hardened markers on bitcoin+litecoin, full list '
                       'on bitcoin; alternative markers h H p P and normalize_path on the BIP44 shape plus one or two '
                       'markers on the BIP45/BIP48 shapes; mixed witness types: all 18 (wallet type, requested type, '
                       'multisig) triples; purpose override: one value per structure',
}
OUTSIDE = ('address uniqueness and restore equivalence; key derivation and persistence inside keys_for_path after its '
           'path_expand call (WalletKey.from_key: ORM inserts), get_key(s) reuse of unused keys, new_account, scan - database '
           'writes are not modelled (index issuance itself - Wallet.new_keys / _get_account_defaults - is decided by the SX '
           'jobs over read-only stand-in rows); that the key material at the produced path is the BIP32 child is '
           'C03; cosigner_index > 15; user-defined path templates other than the three documented shapes; unicode '
           'digits and other exotic spellings of numbers in a caller-supplied path string')

# ---------------------------------------------------------------------------------------------------------------
NETWORKS = ('bitcoin', 'testnet', 'testnet4', 'signet', 'regtest', 'litecoin', 'litecoin_legacy', 'litecoin_testnet',
            'dogecoin', 'dogecoin_testnet', 'bitcoinlib_test')
WITNESS_TYPES = ('legacy', 'p2sh-segwit', 'segwit')
STRUCTS = [(wt, ms) for ms in (False, True) for wt in WITNESS_TYPES]

R = "0 <= a < 2**31 and 0 <= c <= 1 and 0 <= i < 2**31 and 0 <= k <= 15"
P4 = 'a: int, c: int, i: int, k: int'
A4 = 'a, c, i, k'


class Cond:
    def __init__(self, family, name, params, pre, call, proves, timeout=180, cost=20, quick=False):
        self.family, self.name, self.params, self.pre, self.call = family, name, params, pre, call
        self.proves, self.timeout, self.cost, self.quick = proves, timeout, cost, quick

    @property
    def func(self):
        return 'chk_' + self.name

    @property
    def file(self):
        return os.path.join(CH, 'c09_%s.py' % self.family)


def _tag(net, wt, ms):
    return '%s_%s_%s' % (net, wt.replace('-', '_'), 'multisig' if ms else 'single')


def _cfg(net, wt, ms):
    return '%r, %r, %r' % (net, wt, ms)


# one network per distinct SLIP-44 value (0, 1, 2, 3)
NET4 = ('bitcoin', 'testnet', 'litecoin', 'dogecoin')
SHAPE = {False: 'bip44', True: 'bip48'}

# (mode, ck function, one-line meaning, timeout, cost on the 6-/7-level shapes, cost on the BIP45 shape): measured seconds
# on a loaded machine (4 CrossHair processes in parallel)
M = {
    'empty': ('ck_empty', 'path_expand([], account_id, change, address_index, cosigner_id) == BIP path', 180, 19, 5),
    'ci': ('ck_ci', 'path_expand([change, index]) == BIP path', 300, 29, 9),
    'i': ('ck_i', 'path_expand([index], change=) == BIP path', 240, 23, 8),
    'named': ('ck_named', 'full path given by level names == BIP path', 180, 20, 5),
    'wstyle': ('ck_wallet_style', 'get_key_structure_data gives the BIP template/purpose/encoding and path_expand with '
                                  'that explicit template == BIP path', 240, 24, 8),
    'pubmaster': ('ck_public_master', 'HDKey.public_master request == account-level BIP path', 180, 15, 4),
    'wmethod': ('ck_wallet_method', 'Wallet.path_expand == BIP path', 300, 38, 15),
    'kfp': ('ck_keys_for_path', 'path Wallet.keys_for_path is about to derive == BIP path', 300, 32, 9),
    'fulllist': ('ck_full_list', "['m', \"84'\", \"0'\", \"a'\", 'c', 'i'] returned unchanged", 300, 44, 12),
    'fullstr': ('ck_full_str', '"m/84\'/0\'/a\'/c/i" == BIP path', 420, 64, 13),
    'fullbare': ('ck_full_bare', '"m/84/0/a/c/i": BIP-hardened levels come back hardened', 420, 60, 14),
    'levels': ('ck_account_level', 'level_offset -1, -2, n, 1 give the BIP path prefixes', 300, 36, 12),
}


def _modes_for(net):
    """request forms checked for every structure of this network in the thorough tier"""
    modes = ['empty', 'ci']                                      # every network
    if net in NET4:
        modes += ['i', 'named', 'wstyle', 'pubmaster', 'wmethod', 'kfp', 'fullstr', 'levels']
    if net in ('bitcoin', 'litecoin'):
        modes += ['fullbare']
    if net == 'bitcoin':
        modes += ['fulllist']
    if net in ('regtest', 'bitcoinlib_test'):
        modes += ['kfp']
    return modes


QUICK = {
    # [] and [c, i] walk networks x structures diagonally in conditions(); the other forms: one per path shape
    'i': [('testnet', 'legacy', False), ('dogecoin', 'legacy', True)],
    'named': [('litecoin', 'p2sh-segwit', False), ('testnet', 'legacy', True), ('bitcoin', 'segwit', True)],
    'wstyle': [('litecoin', 'p2sh-segwit', False), ('dogecoin', 'legacy', True), ('bitcoin', 'segwit', True)],
    'pubmaster': [('litecoin', 'p2sh-segwit', False), ('testnet', 'legacy', True), ('bitcoin', 'segwit', True)],
    'kfp': [('litecoin', 'p2sh-segwit', False), ('dogecoin', 'legacy', True), ('bitcoin', 'segwit', True)],
    'wmethod': [('testnet', 'legacy', False), ('dogecoin', 'p2sh-segwit', True)],
    'fullstr': [('bitcoin', 'segwit', False), ('litecoin', 'legacy', True)],
    'fullbare': [('litecoin', 'p2sh-segwit', True)],
    'levels': [('dogecoin', 'segwit', True)],
    'fulllist': [('bitcoin', 'legacy', False)],
}


def conditions():
    out = []
    # -- request forms x configurations
    for ni, net in enumerate(NETWORKS):
        for si, (wt, ms) in enumerate(STRUCTS):
            for mode in _modes_for(net):
                ck, proves, to, cost, cost45 = M[mode]
                if mode in ('empty', 'ci'):
                    q = (si == ni % 6) or (net == 'regtest' and (wt, ms) == ('segwit', False) and mode == 'ci')
                else:
                    q = (net, wt, ms) in QUICK.get(mode, ())
                fam = 'paths' if mode in ('empty', 'ci', 'i', 'named') else \
                    'wallet' if mode in ('wstyle', 'pubmaster', 'wmethod', 'kfp') else 'forms'
                out.append(Cond(fam, '%s__%s' % (mode, _tag(net, wt, ms)), P4, R,
                                'O.%s(%s, %s)' % (ck, _cfg(net, wt, ms), A4), proves, to,
                                cost45 if (wt, ms) == ('legacy', True) else cost, q))
    # -- alternative hardened markers: h H p P on the BIP44 shape, h on the two multisig shapes
    for (wt, ms), marks in ((('p2sh-segwit', False), 'hHpP'), (('legacy', True), 'h'), (('segwit', True), 'P')):
        for mname in marks:
            mk = 'hHpP'.index(mname)
            out.append(Cond('forms', 'marker_%s__%s' % (mname if mname.islower() else 'cap' + mname, _tag('bitcoin', wt, ms)),
                            P4, R, 'O.ck_full_h(%s, %s, %d)' % (_cfg('bitcoin', wt, ms), A4, mk),
                            'full path with hardened marker %r is normalised to \' and == BIP path' % mname, 420, 60,
                            (mname, ms) == ('h', False)))
    # -- wallets.normalize_path: every marker on the BIP44 shape, two on the multisig shapes
    NM = ('q', 'h', 'capH', 'p', 'capP')
    for (wt, ms), marks in ((('legacy', False), NM), (('legacy', True), ('q', 'capH')), (('p2sh-segwit', True), ('q', 'p'))):
        for mname in marks:
            out.append(Cond('forms', 'normalize_%s__%s' % (mname, _tag('testnet', wt, ms)), P4, R,
                            'O.ck_normalize(%s, %s, %d)' % (_cfg('testnet', wt, ms), A4, NM.index(mname)),
                            'wallets.normalize_path maps the marker to \' and is the identity on the expanded path', 420,
                            60, (mname, ms) == ('capP', False)))
    # -- purpose override
    for (wt, ms), pu in zip(STRUCTS, (1, 86, 44, 48, 45, 87)):
        out.append(Cond('forms', 'purpose_%d__%s' % (pu, _tag('litecoin', wt, ms)), P4, R,
                        'O.ck_purpose_override(%s, %s, %d)' % (_cfg('litecoin', wt, ms), A4, pu),
                        'get_key_structure_data(purpose=%d) overrules the purpose, path_expand(template, purpose) uses it'
                        % pu, 240, 10 if (wt, ms) == ('legacy', True) else 30, pu == 86))
    out.append(Cond('forms', 'defaults', 'c: int, i: int', '0 <= c <= 1 and 0 <= i < 2**31', 'O.ck_defaults(c, i)',
                    'defaults are account 0 / bitcoin / single-sig BIP84 (documented example)', 180, 8, True))
    # -- mixed witness types in one wallet
    for ms in (False, True):
        for wt in WITNESS_TYPES:
            for wt2 in WITNESS_TYPES:
                net = 'testnet' if ms else 'litecoin'
                out.append(Cond('wallet', 'mixed__%s__asks_%s' % (_tag(net, wt, ms), wt2.replace('-', '_')), P4, R,
                                'O.ck_keys_for_path_mixed(%r, %r, %r, %r, %s)' % (net, wt, wt2, ms, A4),
                                'Wallet(%s).keys_for_path(witness_type=%s) requests the documented path of %s'
                                % (wt, wt2, wt2), 300, 32,
                                (wt, wt2, ms) in (('segwit', 'legacy', False), ('segwit', 'p2sh-segwit', True),
                                                  ('segwit', 'legacy', True), ('legacy', 'segwit', True))))
    # -- refusals
    big = '2**31 <= v'
    neg = 'v < 0'
    S44 = _cfg('bitcoin', 'segwit', False)
    S45 = _cfg('litecoin', 'legacy', True)
    S48 = _cfg('testnet', 'p2sh-segwit', True)
    for which, cfg, pres in (('account_id', S44, (('neg', neg), ('big', big))),
                             ('address_index', S44, (('neg', neg), ('big', big))),
                             ('change', S48, (('neg', neg), ('big', 'v > 1'))),
                             ('cosigner_id', S45, (('neg', neg),))):
        for tag, pre in pres:
            out.append(Cond('refuse', 'refuse_kw_%s_%s' % (which, tag), 'v: int', pre,
                            'O.ck_refuse_kw(%s, %r, v)' % (cfg, which),
                            'path_expand([], %s=v) raises for v %s' % (which, pre), 120, 3, tag == 'neg' or which == 'change'))
    # negative numbers inside the path: the error message of the real code ("Variable %s not found" % name) makes
    # CrossHair enumerate the offending value, so the negative ranges are windows (see BOUNDS)
    WIN = '(-100 <= %(v)s < 0 or -2**31 - 20 <= %(v)s <= -2**31 + 20 or -10**12 - 10 <= %(v)s <= -10**12 + 10)'
    out.append(Cond('refuse', 'refuse_list_neg_index', 'c: int, i: int', '0 <= c <= 1 and ' + WIN % dict(v='i'),
                    'O.ck_refuse_list(%s, c, i)' % S44, 'path_expand([c, i]) raises when i is negative', 300, 20, True))
    out.append(Cond('refuse', 'refuse_list_neg_change', 'c: int, i: int', '0 <= i < 2**31 and ' + WIN % dict(v='c'),
                    'O.ck_refuse_list(%s, c, i)' % S48, 'path_expand([c, i]) raises when c is negative', 300, 20, False))
    out.append(Cond('refuse', 'refuse_list_big', 'c: int, i: int', '0 <= c <= 1 and i >= 2**31',
                    'O.ck_refuse_list(%s, c, i)' % S44, 'path_expand([c, i]) raises for i >= 2^31', 120, 4, True))
    out.append(Cond('refuse', 'refuse_list_change', 'c: int, i: int', 'c > 1 and 0 <= i < 2**31',
                    'O.ck_refuse_list(%s, c, i)' % S48, 'path_expand([c, i]) raises for change > 1', 120, 4, False))
    out.append(Cond('refuse', 'refuse_full_neg', P4, '-30 <= a < 0 and 0 <= c <= 1 and 0 <= i < 2**31 and k == 0',
                    'O.ck_refuse_full(%s, %s)' % (S48, A4), 'a negative account inside "m/.../..." raises', 300, 60, True))
    out.append(Cond('refuse', 'refuse_full_big', P4, 'a >= 2**31 and 0 <= c <= 1 and 0 <= i < 2**31 and k == 0',
                    'O.ck_refuse_full(%s, %s)' % (S44, A4), 'an account >= 2^31 inside "m/.../..." raises', 120, 5, False))
    for cfg, shape, npos in ((S44, 'bip44', 5), (S45, 'bip45', 4), (S48, 'bip48', 6)):
        for form, fname in enumerate(('ints', 'list', 'str', 'relstr')):
            xr = ' and 0 <= x < 2**31' if form < 2 else ' and 0 <= x <= 9'
            out.append(Cond('refuse', 'refuse_too_long_%s_%s' % (fname, shape), P4 + ', x: int', R + xr,
                            'O.ck_refuse_too_long(%s, %s, x, %d)' % (cfg, A4, form),
                            'a request with one level more than the %s shape raises' % shape, 420,
                            (5 if shape == 'bip45' else 90 if fname == 'list' else 20),
                            (fname, shape) in (('ints', 'bip48'), ('str', 'bip44'))))
        for lo, hi in ((0, 6), (7, 13), (14, 20)):
            out.append(Cond('refuse', 'refuse_wrong_name_%d_%d_%s' % (lo, hi, shape), P4 + ', pos: int, w: int',
                            R + ' and 0 <= pos < %d and %d <= w <= %d' % (npos, lo, hi),
                            'O.ck_refuse_wrong_name(%s, %s, pos, w)' % (cfg, A4),
                            'a level that is neither a number nor a documented level name raises (spellings %d..%d of '
                            'WRONG_NAMES x every position)' % (lo, hi), 420, 70, (shape, lo) == ('bip44', 0)))
        for w in (1, 16):
            out.append(Cond('refuse', 'refuse_wrong_name_numeric_%d_%s' % (w, shape), P4 + ', pos: int',
                            R + ' and 0 <= pos < %d' % npos,
                            'O.ck_refuse_wrong_name_numeric(%s, %s, pos, %d)' % (cfg, A4, w),
                            'a non-numeric level inside a spelled-out numeric path raises', 420, 60, False))
        out.append(Cond('refuse', 'refuse_name_network_%s' % shape, P4 + ', pos: int', R + ' and 0 <= pos < %d' % npos,
                        'O.ck_refuse_name_network(%s, %s, pos)' % (cfg, A4),
                        "'network' used as a level raises or at least yields no non-numeric element", 120, 4,
                        shape == 'bip44'))
        for form, fname in enumerate(('trailing_slash', 'double_slash', 'list_item', 'empty_string')):
            if shape != 'bip44' and form:
                continue
            out.append(Cond('refuse', 'refuse_empty_level_%s_%s' % (fname, shape), P4, R,
                            'O.ck_refuse_empty_level(%s, %s, %d)' % (cfg, A4, form),
                            'an empty level raises or at least yields no empty element', 120, 5,
                            (fname, shape) == ('trailing_slash', 'bip44')))
    out.append(Cond('refuse', 'refuse_unknown', 'a: int, c: int, i: int, sel: int',
                    '0 <= a < 2**31 and 0 <= c <= 1 and 0 <= i < 2**31 and 0 <= sel <= 9', 'O.ck_refuse_unknown(a, c, i, sel)',
                    'unknown witness type / network / structure, non-list path, missing address_index raise', 180, 5, True))
    names = [c.name for c in out]
    assert len(set(names)) == len(names), 'duplicate condition names'
    return out


HEADER = '''"""GENERATED by `python -m harness.c09 --gen` from the table in harness/c09.py - do not edit.
C09 family %(family)r: one CrossHair condition per configuration; drivers and specification are in c09_oracle.py."""
import os
import sys

sys.path.insert(0, os.path.dirname(os.path.abspath(__file__)))
import c09_oracle as O
'''

FUNC = '''

def %(func)s(%(params)s) -> bool:
    """
    %(proves)s

    pre: %(pre)s
    post: _
    """
    return %(call)s
'''


def render():
    """{file name: text} of the generated condition files"""
    files = {}
    for c in conditions():
        txt = files.setdefault(c.file, HEADER % dict(family=c.family))
        files[c.file] = txt + FUNC % dict(func=c.func, params=c.params, proves=c.proves.replace('\\', '\\\\'),
                                          pre=c.pre, call=c.call)
    return files


def _check_fresh():
    for fn, txt in render().items():
        try:
            with open(fn) as f:
                cur = f.read()
        except OSError:
            cur = None
        if cur != txt:
            raise RuntimeError('%s is stale or missing: run `python -m harness.c09 --gen` in /verif' % fn)


def _check_networks():
    """the oracle table must know every network the current tree defines (a new network needs its SLIP-44 value)"""
    with open(os.path.join(REPO, 'bitcoinlib', 'data', 'networks.json')) as f:
        defined = set(json.load(f))
    if defined != set(NETWORKS):
        raise RuntimeError('networks.json defines %s, the C09 oracle knows %s: extend NETWORKS here and SLIP44 in '
                           'ch/c09_oracle.py' % (sorted(defined), sorted(NETWORKS)))


# conditions that demand a refusal the property does not state (path_expand does not range-check keyword values, accepts
# 'network' as a level name and passes empty levels through; HDKey.subkey_for_path refuses such paths later): they are
# kept in the generated files as observations but are not registered as checks
NOT_REGISTERED = ('refuse_kw_', 'refuse_list_big', 'refuse_list_change', 'refuse_full_big', 'refuse_name_network_',
                  'refuse_empty_level_')
# listed finding: a multisig wallet asked for a key of another witness type keeps its own path shape
MIXED_MULTISIG_DEVIATIONS = ('mixed__testnet_segwit_multisig__asks_legacy', 'mixed__testnet_p2sh_segwit_multisig__asks_legacy',
                             'mixed__testnet_legacy_multisig__asks_segwit', 'mixed__testnet_legacy_multisig__asks_p2sh_segwit')


def jobs(tier):
    _check_fresh()
    _check_networks()
    out = []
    for c in conditions():
        if tier == 'quick' and not c.quick:
            continue
        if c.name.startswith(NOT_REGISTERED):
            continue
        kfid = 'C09-mixed-witness-multisig-hybrid-path' if c.name in MIXED_MULTISIG_DEVIATIONS else None
        j = Job(c.name, engine='ch', ch_file=c.file, ch_func=c.func, ch_timeout=c.timeout, note=c.proves, known_finding=kfid)
        j.cost = c.cost
        out.append(j)
    from harness import c09sx             # database-backed part (index issuance, account defaults): engine SX + sqlmini
    out += c09sx.jobs(tier)
    return out


if __name__ == '__main__':
    if '--gen' in sys.argv:
        for fn, txt in render().items():
            with open(fn, 'w') as f:
                f.write(txt)
            print('wrote %s (%d conditions)' % (fn, txt.count('\ndef chk_')))
    cs = conditions()
    print('%d conditions, %d quick; estimated cpu: thorough %ds quick %ds' % (
        len(cs), sum(c.quick for c in cs), sum(c.cost for c in cs), sum(c.cost for c in cs if c.quick)))
