"""symx: proxy-based symbolic execution of real Python functions, z3 bit-vector back end.

The *real* function objects of the analysed library are called with proxy arguments (SInt, SBool, SBytes,
SStr ...).  Every data-dependent branch (`SBool.__bool__`) is decided by the path scheduler (depth-first
re-execution with solver feasibility checks); at the end of a path the harness poses obligations
(`ex.check`), each of which is the query  path_condition AND axioms AND NOT property.

Verdict discipline: z3 `unknown`, unsupported proxy operations and exhausted budgets raise EngineLimit, which
makes the obligation *inconclusive* - never a pass.
"""
import os
import time
import numbers
import z3

DEBUG = bool(os.environ.get('SYMX_DEBUG'))


class EngineLimit(BaseException):
    """The engine cannot decide (unsupported operation, solver unknown, budget). Inconclusive, never a pass."""


def modelled(e):
    """mark an exception a proxy raises on behalf of CPython (it is what the real builtin would raise on the value)"""
    e._symx_modelled = True
    return e


class PathAbort(BaseException):
    """Current path is infeasible or cut by an assumption."""


_cur = None  # current explorer


def cur():
    return _cur


# ----------------------------------------------------------------------------------------------- helpers

def _bv(v, w=None):
    w = w or _cur.W
    if isinstance(v, SInt):
        return v.t
    if isinstance(v, bool):
        v = int(v)
    if isinstance(v, int):
        lim = 1 << (w - 1)
        if not (-lim <= v < lim):
            raise EngineLimit("constant %d out of width %d" % (v, w))
        return z3.BitVecVal(v, w)
    raise TypeError(type(v))


def _rng(v):
    if isinstance(v, SInt):
        return v.lo, v.hi
    v = int(v)
    return v, v


def _b(o):
    if isinstance(o, SBool):
        return o.t
    return z3.BoolVal(bool(o))


def _placeholder(obj):
    """text stand-in for a proxy that reaches C-level formatting: '<sym#N>' (N indexes Explorer.placeholders, so a
    harness can tell WHICH value was formatted into a string)"""
    _cur.stats['placeholders'] = _cur.stats.get('placeholders', 0) + 1
    _cur.placeholders.append(obj)
    return "<sym#%d>" % (len(_cur.placeholders) - 1)


def mk_bool(t):
    t = z3.simplify(t)
    if z3.is_true(t):
        return True
    if z3.is_false(t):
        return False
    return SBool(t)


def mk_int(t, lo, hi):
    """SInt unless the term simplifies to a constant"""
    t = z3.simplify(t)
    if z3.is_bv_value(t):
        return t.as_signed_long()
    return SInt(t, lo, hi)


def s_and(*xs):
    r = True
    for x in xs:
        if isinstance(x, SBool):
            r = x if r is True else (r & x)
        elif not x:
            return False
    return r


def s_or(*xs):
    r = False
    for x in xs:
        if isinstance(x, SBool):
            r = x if r is False else (r | x)
        elif x:
            return True
    return r


def s_not(x):
    return ~x if isinstance(x, SBool) else (not x)


def s_implies(a, b):
    return s_or(s_not(a), b)


def s_ite(c, a, b):
    """if-then-else on ints (SInt/int)"""
    if not isinstance(c, SBool):
        return a if c else b
    la, ha = _rng(a)
    lb, hb = _rng(b)
    return mk_int(z3.If(c.t, _bv(a), _bv(b)), min(la, lb), max(ha, hb))


# ----------------------------------------------------------------------------------------------- SBool

class SBool:
    """symbolic truth value.  rt / rf: optional interval refinements applied to the compared SInt objects once the
    scheduler has decided the condition true / false on this path (proxy objects are per path, so this is sound)"""
    rt = rf = None

    def __init__(self, t):
        self.t = t

    def __bool__(self):
        d = _cur.branch(self.t)
        self.refine(d)
        return d

    def refine(self, d):
        f = self.rt if d else self.rf
        if f is not None:
            f()

    def __and__(self, o):
        if not isinstance(o, (SBool, bool)):
            return NotImplemented
        r = mk_bool(z3.And(self.t, _b(o)))
        if isinstance(r, SBool):
            fs = [x.rt for x in (self, o) if isinstance(x, SBool) and x.rt is not None]
            if fs:
                r.rt = lambda: [f() for f in fs]
        return r

    __rand__ = __and__

    def __or__(self, o):
        if not isinstance(o, (SBool, bool)):
            return NotImplemented
        r = mk_bool(z3.Or(self.t, _b(o)))
        if isinstance(r, SBool):
            fs = [x.rf for x in (self, o) if isinstance(x, SBool) and x.rf is not None]
            if fs:
                r.rf = lambda: [f() for f in fs]
        return r

    __ror__ = __or__

    def __invert__(self):
        r = mk_bool(z3.Not(self.t))
        if isinstance(r, SBool):
            r.rt, r.rf = self.rf, self.rt
        return r

    def __eq__(self, o):
        if not isinstance(o, (SBool, bool)):
            return False
        return mk_bool(self.t == _b(o))

    def __ne__(self, o):
        if not isinstance(o, (SBool, bool)):
            return True
        return mk_bool(self.t != _b(o))

    def __hash__(self):
        return id(self)

    def __int__(self):
        return 1 if bool(self) else 0

    __index__ = __int__

    def __add__(self, o):
        return s_ite(self, 1, 0) + o

    __radd__ = __add__


# ----------------------------------------------------------------------------------------------- SInt

class SInt:
    """Signed bit-vector of width W with a conservative interval [lo, hi]: Python ints never wrap, so every
    operation must provably stay inside the width, otherwise EngineLimit."""

    def __init__(self, t, lo, hi):
        lim = 1 << (_cur.W - 1)
        if lo < -lim or hi >= lim:
            raise EngineLimit("interval [%d,%d] exceeds width %d" % (lo, hi, _cur.W))
        self.t, self.lo, self.hi = t, lo, hi

    # --- arithmetic
    def __add__(self, o):
        if isinstance(o, SBool):
            o = s_ite(o, 1, 0)
        if not isinstance(o, (int, SInt)):
            return NotImplemented
        l, h = _rng(o)
        return mk_int(self.t + _bv(o), self.lo + l, self.hi + h)

    __radd__ = __add__

    def __sub__(self, o):
        if not isinstance(o, (int, SInt)):
            return NotImplemented
        l, h = _rng(o)
        return mk_int(self.t - _bv(o), self.lo - h, self.hi - l)

    def __rsub__(self, o):
        if not isinstance(o, (int, SInt)):
            return NotImplemented
        l, h = _rng(o)
        return mk_int(_bv(o) - self.t, l - self.hi, h - self.lo)

    def __neg__(self):
        return mk_int(-self.t, -self.hi, -self.lo)

    def __pos__(self):
        return self

    def __abs__(self):
        lo = 0 if self.lo <= 0 <= self.hi else min(abs(self.lo), abs(self.hi))
        return mk_int(z3.If(self.t < 0, -self.t, self.t), lo, max(abs(self.lo), abs(self.hi)))

    def __mul__(self, o):
        if not isinstance(o, (int, SInt)):
            return NotImplemented
        if isinstance(o, SInt) and not _cur.allow_symmul:
            raise EngineLimit("symbolic x symbolic multiplication")
        l, h = _rng(o)
        c = [self.lo * l, self.lo * h, self.hi * l, self.hi * h]
        return mk_int(self.t * _bv(o), min(c), max(c))

    __rmul__ = __mul__

    def __floordiv__(self, o):
        if isinstance(o, int) and o > 0:
            if self.lo >= 0:
                q = z3.UDiv(self.t, _bv(o))
            else:
                q = z3.If(self.t >= 0, z3.UDiv(self.t, _bv(o)), -z3.UDiv(-self.t + (o - 1), _bv(o)))
            return mk_int(q, self.lo // o, self.hi // o)
        raise EngineLimit("floordiv by non-constant / non-positive")

    def __mod__(self, o):
        if isinstance(o, int) and o > 0:
            if 0 <= self.lo and self.hi < o:
                return self
            if 0 <= self.lo and self.hi < 2 * o:
                return mk_int(z3.If(self.t >= o, self.t - o, self.t), 0, o - 1)
            if o & (o - 1) == 0 and self.lo >= 0:
                return mk_int(self.t & (o - 1), 0, o - 1)
            q = self // o
            return mk_int(self.t - _bv(q) * o, 0, o - 1)
        raise EngineLimit("mod by non-constant / non-positive")

    def __divmod__(self, o):
        return self // o, self % o

    def __truediv__(self, o):
        raise EngineLimit("true division on SInt (float)")

    def __pow__(self, o, m=None):
        raise EngineLimit("pow on SInt")

    def __rpow__(self, base, m=None):
        # constant ** symbolic exponent: fork over the (few) feasible exponents
        if m is not None or not isinstance(base, int):
            raise EngineLimit("rpow")
        return base ** self.concretize()

    def __lshift__(self, o):
        if isinstance(o, int) and o >= 0:
            return self * (1 << o)
        raise EngineLimit("shift by symbolic")

    def __rshift__(self, o):
        if isinstance(o, int) and o >= 0:
            return mk_int(self.t >> o, self.lo >> o, self.hi >> o)
        if isinstance(o, SInt) and self.lo >= 0 and o.lo >= 0:
            return mk_int(z3.LShR(self.t, o.t), 0, self.hi >> o.lo)
        raise EngineLimit("shift by symbolic")

    def __rrshift__(self, o):
        if isinstance(o, int) and o >= 0 and self.lo >= 0:
            return mk_int(z3.LShR(_bv(o), self.t), 0, o >> self.lo)
        raise EngineLimit("rrshift")

    def __and__(self, o):
        if isinstance(o, int) and o >= 0:
            return mk_int(self.t & _bv(o), 0, o)
        if isinstance(o, SInt) and self.lo >= 0 and o.lo >= 0:
            return mk_int(self.t & o.t, 0, min(self.hi, o.hi))
        raise EngineLimit("and")

    __rand__ = __and__

    def __or__(self, o):
        if not isinstance(o, (int, SInt)):
            return NotImplemented
        l, h = _rng(o)
        if self.lo >= 0 and l >= 0:
            bits = max(self.hi.bit_length(), h.bit_length())
            return mk_int(self.t | _bv(o), max(self.lo, l), (1 << bits) - 1)
        raise EngineLimit("or")

    __ror__ = __or__

    def __xor__(self, o):
        if not isinstance(o, (int, SInt)):
            return NotImplemented
        l, h = _rng(o)
        if self.lo >= 0 and l >= 0:
            bits = max(self.hi.bit_length(), h.bit_length())
            return mk_int(self.t ^ _bv(o), 0, (1 << bits) - 1)
        raise EngineLimit("xor")

    __rxor__ = __xor__

    # --- comparisons
    def _cmp(self, o, f, by_interval, kind=None):
        if isinstance(o, SBool):
            o = s_ite(o, 1, 0)
        if not isinstance(o, (int, SInt)):
            return NotImplemented
        l, h = _rng(o)
        r = by_interval(self.lo, self.hi, l, h)
        if r is not None:
            return r
        if isinstance(o, int):
            lim = 1 << (_cur.W - 1)
            if not (-lim <= o < lim):     # comparing with a constant outside the width: decided by sign
                return by_interval(self.lo, self.hi, o, o)
        r = mk_bool(f(self.t, _bv(o)))
        if isinstance(r, SBool) and isinstance(o, int) and kind is not None:
            # interval refinement once the branch is decided: (upper bound if true, lower bound if false) etc.
            def set_hi(v):
                self.hi = min(self.hi, v)

            def set_lo(v):
                self.lo = max(self.lo, v)
            if kind == 'lt':
                r.rt, r.rf = (lambda: set_hi(o - 1)), (lambda: set_lo(o))
            elif kind == 'le':
                r.rt, r.rf = (lambda: set_hi(o)), (lambda: set_lo(o + 1))
            elif kind == 'gt':
                r.rt, r.rf = (lambda: set_lo(o + 1)), (lambda: set_hi(o))
            elif kind == 'ge':
                r.rt, r.rf = (lambda: set_lo(o)), (lambda: set_hi(o - 1))
        return r

    def __lt__(self, o):
        return self._cmp(o, lambda a, b: a < b, lambda l1, h1, l2, h2: True if h1 < l2 else (False if l1 >= h2 else None), 'lt')

    def __le__(self, o):
        return self._cmp(o, lambda a, b: a <= b, lambda l1, h1, l2, h2: True if h1 <= l2 else (False if l1 > h2 else None), 'le')

    def __gt__(self, o):
        return self._cmp(o, lambda a, b: a > b, lambda l1, h1, l2, h2: True if l1 > h2 else (False if h1 <= l2 else None), 'gt')

    def __ge__(self, o):
        return self._cmp(o, lambda a, b: a >= b, lambda l1, h1, l2, h2: True if l1 >= h2 else (False if h1 < l2 else None), 'ge')

    def __eq__(self, o):
        if isinstance(o, SBool):
            o = s_ite(o, 1, 0)
        if not isinstance(o, (int, SInt)):
            return False
        l, h = _rng(o)
        if h < self.lo or l > self.hi:
            return False
        return mk_bool(self.t == _bv(o))

    def __ne__(self, o):
        r = self.__eq__(o)
        return (not r) if isinstance(r, bool) else ~r

    def __hash__(self):
        return id(self)

    def __bool__(self):
        return bool(self != 0)

    def __index__(self):
        return self.concretize()

    __int__ = __index__

    def __float__(self):
        raise EngineLimit("float() of SInt")

    def __str__(self):
        # only reached through C-level formatting (error / log messages).  A placeholder: if the text were parsed back
        # the real code would fail where the concrete run does not, which the replay-before-report step rejects.
        return _placeholder(self)

    def __repr__(self):
        return "<SInt [%d,%d]>" % (self.lo, self.hi)

    def __format__(self, spec):
        return self.__str__()

    def concretize(self):
        """Fork over every feasible concrete value (solver-enumerated)."""
        return _cur.concretize(self)

    # --- int API used by the code under analysis
    def bit_length(self):
        a = abs(self)
        if isinstance(a, int):
            return a.bit_length()
        n = max(abs(self.lo), abs(self.hi)).bit_length()
        t = z3.BitVecVal(0, _cur.W)
        for k in range(1, n + 1):
            t = z3.If(a.t >= (1 << (k - 1)), z3.BitVecVal(k, _cur.W), t)
        return mk_int(t, 0, n)

    def to_bytes(self, length=1, byteorder='big', signed=False):
        if isinstance(length, SInt):
            length = length.concretize()
        if signed:
            raise EngineLimit("signed to_bytes")
        if self.lo < 0:
            if self < 0:
                raise modelled(OverflowError("can't convert negative int to unsigned"))
        if self.hi >= (1 << (8 * length)):
            if not (self < (1 << (8 * length))):
                raise modelled(OverflowError("int too big to convert"))
        if 8 * length > _cur.W:
            bs = [z3.Extract(8 * i + 7, 8 * i, self.t) if 8 * i + 8 <= _cur.W else
                  (0 if 8 * i >= _cur.W else z3.ZeroExt(8 * i + 8 - _cur.W, z3.Extract(_cur.W - 1, 8 * i, self.t)))
                  for i in range(length)]
        else:
            bs = [z3.Extract(8 * i + 7, 8 * i, self.t) for i in range(length)]  # little endian
        if byteorder == 'big':
            bs.reverse()
        r = SBytes(bs)
        r._origin = (self, length, byteorder)       # lets int.from_bytes return the very same term (exact inverse)
        return r

    def conjugate(self):
        return self


numbers.Number.register(SInt)
numbers.Integral.register(SInt)


# ----------------------------------------------------------------------------------------------- SBytes

def _t8(x):
    return z3.BitVecVal(x, 8) if isinstance(x, int) else x


def _byte(x):
    """normalise a byte element to a python int or a z3 BV8 term"""
    if isinstance(x, bool):
        return int(x)
    if isinstance(x, int):
        if not 0 <= x < 256:
            raise modelled(ValueError("bytes must be in range(0, 256)"))
        return x
    if isinstance(x, SInt):
        if x.lo < 0 or x.hi > 255:
            if not ((x >= 0) & (x <= 255)):
                raise modelled(ValueError("bytes must be in range(0, 256)"))
        x = z3.Extract(7, 0, x.t)
    x = z3.simplify(x)
    if z3.is_bv_value(x):
        return x.as_long()
    return x


HASH_BY_VALUE = False


class SBytes:
    """bytes of concrete length whose elements are python ints or z3 BV8 terms"""

    def __init__(self, items=()):
        if isinstance(items, SBytes):
            self.b = list(items.b)
        else:
            self.b = [x if type(x) is int and 0 <= x < 256 else _byte(x) for x in items]

    @staticmethod
    def _norm(items):
        """from already normalised elements (ints / simplified BV8 terms): no re-simplification"""
        r = SBytes.__new__(SBytes)
        r.b = items
        return r

    @staticmethod
    def lift(x):
        if isinstance(x, SBytes):
            return x
        if isinstance(x, (bytes, bytearray)):
            return SBytes(list(x))
        raise TypeError("cannot lift %r to SBytes" % type(x))

    def is_concrete(self):
        return all(isinstance(x, int) for x in self.b)

    def lower_if_concrete(self):
        return bytes(self.b) if self.is_concrete() else self

    def __len__(self):
        return len(self.b)

    def _elt(self, x):
        if isinstance(x, int):
            return x
        return SInt(z3.ZeroExt(_cur.W - 8, x), 0, 255)

    def __getitem__(self, i):
        if isinstance(i, slice):
            if any(isinstance(v, SInt) for v in (i.start, i.stop, i.step)):
                i = slice(*(v.concretize() if isinstance(v, SInt) else v for v in (i.start, i.stop, i.step)))
            return SBytes._norm(self.b[i]).lower_if_concrete()
        if isinstance(i, SInt):
            i = i.concretize()
        return self._elt(self.b[i])

    def __iter__(self):
        return (self._elt(x) for x in self.b)

    def __add__(self, o):
        if isinstance(o, (bytes, bytearray)):
            return SBytes._norm(self.b + list(o))
        if isinstance(o, SBytes):
            return SBytes._norm(self.b + o.b)
        return NotImplemented

    def __radd__(self, o):
        if isinstance(o, (bytes, bytearray)):
            return SBytes._norm(list(o) + self.b)
        return NotImplemented

    def __mul__(self, n):
        if isinstance(n, SInt):
            n = n.concretize()
        return SBytes(self.b * n)

    def __eq__(self, o):
        if isinstance(o, (bytes, bytearray)):
            o = SBytes(list(o))
        if not isinstance(o, SBytes):
            return False
        if len(o) != len(self):
            return False
        if not self.b:
            return True
        return mk_bool(z3.And([_t8(a) == _t8(b) for a, b in zip(self.b, o.b)]))

    def __ne__(self, o):
        r = self == o
        return (not r) if isinstance(r, bool) else ~r

    def _lex(self, o, strict):
        o = SBytes.lift(o)
        # lexicographic a < b
        n = min(len(self), len(o))
        res = z3.BoolVal((len(self) < len(o)) if strict else (len(self) <= len(o)))
        for k in range(n - 1, -1, -1):
            a, b = _t8(self.b[k]), _t8(o.b[k])
            res = z3.If(z3.ULT(a, b), z3.BoolVal(True), z3.If(z3.UGT(a, b), z3.BoolVal(False), res))
        return mk_bool(res)

    def __lt__(self, o):
        return self._lex(o, True)

    def __le__(self, o):
        return self._lex(o, False)

    def __gt__(self, o):
        return SBytes.lift(o)._lex(self, True)

    def __ge__(self, o):
        return SBytes.lift(o)._lex(self, False)

    def __hash__(self):
        # HASH_BY_VALUE (opt-in per harness): all byte strings of one length share a hash, so dict / set look-ups keyed
        # by symbolic bytes are decided by == (which forks like any comparison) - a symbolic model of the container
        return hash(('SBytes', len(self.b))) if HASH_BY_VALUE else id(self)

    def __bool__(self):
        return len(self.b) > 0

    def __bytes__(self):
        if self.is_concrete():
            return bytes(self.b)
        raise EngineLimit("bytes() realisation of symbolic bytes")

    def __contains__(self, x):
        if isinstance(x, (int, SInt)):
            return bool(s_or(*[(e == x) for e in self]))
        raise EngineLimit("subsequence search in SBytes")

    def decode(self, enc='utf-8', errors='strict'):
        if self.b:
            ascii_ = mk_bool(z3.And([z3.ULT(_t8(x), 128) for x in self.b]))
            if not ascii_:
                raise modelled(UnicodeDecodeError('utf-8', b'', 0, 1, 'non-ascii (model)'))
        return SStr([self._elt(x) for x in self.b])

    def hex(self):
        out = []
        for x in self.b:
            if isinstance(x, int):
                out += [ord(c) for c in '%02x' % x]
            else:
                for nib in (z3.LShR(x, 4), x & 15):
                    t = z3.ZeroExt(_cur.W - 8, nib)
                    out.append(SInt(z3.If(t < 10, t + 48, t + 87), 48, 102))
        return SHexStr(out, self)

    def startswith(self, p):
        if len(p) > len(self):
            return False
        return self[:len(p)] == p

    def lstrip(self, chars=None):
        if chars is None:
            raise EngineLimit("bytes.lstrip() without argument")
        cs = list(bytes(chars))
        k = 0
        while k < len(self.b) and bool(s_or(*[self[k] == c for c in cs])):      # forks per leading byte
            k += 1
        return self[k:]

    def endswith(self, p):
        if len(p) > len(self):
            return False
        return self[len(self) - len(p):] == p

    def term(self):
        return [_t8(x) for x in self.b]

    def __repr__(self):
        return "<SBytes len=%d>" % len(self.b)


# ----------------------------------------------------------------------------------------------- strings

class SChar:
    """one character: code point as SInt"""

    def __init__(self, c):
        self.c = c

    def __eq__(self, o):
        if isinstance(o, str):
            if len(o) != 1:
                return False
            return self.c == ord(o)
        if isinstance(o, SChar):
            return self.c == o.c
        if isinstance(o, SStr):
            return o == self
        return False

    def __ne__(self, o):
        r = self == o
        return (not r) if isinstance(r, bool) else ~r

    def __hash__(self):
        return id(self)

    def __len__(self):
        return 1

    def __add__(self, o):
        return SStr([self.c]) + o

    def __radd__(self, o):
        return o + SStr([self.c]) if isinstance(o, SStr) else SStr([ord(ch) for ch in o] + [self.c])

    def __getitem__(self, i):
        return SStr([self.c])[i]

    def __iter__(self):
        return iter([self])

    def lower(self):
        return SStr([self.c]).lower()[0]

    def upper(self):
        return SStr([self.c]).upper()[0]

    def __contains__(self, x):
        return bool(self == x)

    def encode(self, *a):
        return SBytes([self.c])

    def isdigit(self):
        return bool((self.c >= 48) & (self.c <= 57))


def _cp(x):
    return x.c if isinstance(x, SChar) else ord(x)


def _sch(x):
    return SChar(x) if isinstance(x, SInt) else chr(x)


class SStr:
    """text of concrete length; each code point is an int or an SInt (0..255 unless stated)"""

    def __init__(self, cps=()):
        self.c = [(_cp(x) if isinstance(x, (str, SChar)) else x) for x in cps]

    @staticmethod
    def lift(x):
        if isinstance(x, SStr):
            return x
        if isinstance(x, SChar):
            return SStr([x.c])
        if isinstance(x, str):
            return SStr([ord(ch) for ch in x])
        raise TypeError(type(x))

    def is_concrete(self):
        return all(isinstance(x, int) for x in self.c)

    def lower_if_concrete(self):
        return ''.join(chr(x) for x in self.c) if self.is_concrete() else self

    def zfill(self, n):
        # (sign characters are not handled: callers render non-negative numbers)
        pad = n - len(self.c)
        return ('0' * pad + self) if pad > 0 else self

    def __len__(self):
        return len(self.c)

    def __bool__(self):
        return len(self.c) > 0

    def __iter__(self):
        return (_sch(x) for x in self.c)

    def __getitem__(self, i):
        if isinstance(i, slice):
            if any(isinstance(v, SInt) for v in (i.start, i.stop, i.step)):
                i = slice(*(v.concretize() if isinstance(v, SInt) else v for v in (i.start, i.stop, i.step)))
            return SStr(self.c[i]).lower_if_concrete()
        if isinstance(i, SInt):
            i = i.concretize()
        return _sch(self.c[i])

    def _map(self, f):
        return SStr([f(x) for x in self.c])

    def lower(self):
        def f(x):
            if isinstance(x, int):
                return ord(chr(x).lower()) if x < 128 else x
            return mk_int(z3.If(z3.And(x.t >= 65, x.t <= 90), x.t + 32, x.t), x.lo, max(x.hi, 122))
        return self._map(f)

    def upper(self):
        def f(x):
            if isinstance(x, int):
                return ord(chr(x).upper()) if x < 128 else x
            return mk_int(z3.If(z3.And(x.t >= 97, x.t <= 122), x.t - 32, x.t), min(x.lo, 65), x.hi)
        return self._map(f)

    def __eq__(self, o):
        if isinstance(o, (str, SChar)):
            o = SStr.lift(o)
        if not isinstance(o, SStr) or len(o) != len(self):
            return False
        return s_and(*[(a == b) if isinstance(a, SInt) else ((b == a) if isinstance(b, SInt) else a == b)
                       for a, b in zip(self.c, o.c)])

    def __ne__(self, o):
        r = self == o
        return (not r) if isinstance(r, bool) else ~r

    def __hash__(self):
        return id(self)

    def __add__(self, o):
        if isinstance(o, (str, SStr, SChar)):
            return SStr(self.c + SStr.lift(o).c)
        return NotImplemented

    def __radd__(self, o):
        if isinstance(o, str):
            return SStr([ord(ch) for ch in o] + self.c)
        return NotImplemented

    def __contains__(self, x):
        x = SStr.lift(x)
        if len(x) == 0:
            return True
        if len(x) == 1:
            return bool(s_or(*[SStr([c]) == x for c in self.c]))
        return bool(s_or(*[SStr(self.c[i:i + len(x)]) == x for i in range(len(self.c) - len(x) + 1)]))

    def find(self, ch):
        ch = SStr.lift(ch)
        for i in range(len(self.c) - len(ch) + 1):
            if SStr(self.c[i:i + len(ch)]) == ch:
                return i
        return -1

    def rfind(self, ch):
        ch = SStr.lift(ch)
        for i in range(len(self.c) - len(ch), -1, -1):
            if SStr(self.c[i:i + len(ch)]) == ch:
                return i
        return -1

    def startswith(self, p):
        if isinstance(p, tuple):
            return bool(s_or(*[self._starts(x) for x in p]))
        return bool(self._starts(p))

    def _starts(self, p):
        p = SStr.lift(p)
        if len(p) > len(self):
            return False
        return SStr(self.c[:len(p)]) == p

    def endswith(self, p):
        p = SStr.lift(p)
        if len(p) > len(self):
            return False
        return bool(SStr(self.c[len(self.c) - len(p):]) == p)

    def encode(self, enc='utf-8', errors='strict'):
        for x in self.c:
            if isinstance(x, SInt) and x.hi > 127:
                if not (x < 128):
                    raise EngineLimit("non-ascii encode of symbolic text")
            elif isinstance(x, int) and x > 127:
                raise EngineLimit("non-ascii encode")
        return SBytes(self.c)

    def split(self, sep=None, maxsplit=-1):
        if sep is None:
            raise EngineLimit("split on whitespace")
        out, curp = [], []
        for x in self.c:
            if bool(SStr([x]) == sep):
                out.append(SStr(curp).lower_if_concrete())
                curp = []
            else:
                curp.append(x)
        out.append(SStr(curp).lower_if_concrete())
        return out

    def strip(self, chars=None):
        raise EngineLimit("strip on symbolic text")

    def isdigit(self):
        return bool(s_and(len(self.c) > 0, *[((x >= 48) & (x <= 57)) if isinstance(x, SInt) else (48 <= x <= 57) for x in self.c]))

    def __str__(self):
        if self.is_concrete():
            return ''.join(chr(x) for x in self.c)
        return _placeholder(self)

    def __repr__(self):
        return "<SStr len=%d>" % len(self.c)


class SHexStr(SStr):
    """lower-case hex rendering of an SBytes that remembers its source bytes: int(h, 16), bytes.fromhex(h) and even
    slices go back to the bytes instead of doing arithmetic on symbolic characters"""

    def __init__(self, cps, src):
        SStr.__init__(self, cps)
        self.src = src

    def __getitem__(self, i):
        if isinstance(i, slice) and i.step is None:
            a, b, _ = i.indices(len(self.c))
            if a % 2 == 0 and b % 2 == 0 and b >= a:
                return SHexStr(self.c[a:b], SBytes._norm(self.src.b[a // 2:b // 2]))
        return SStr.__getitem__(self, i)

    def __add__(self, o):
        if isinstance(o, SHexStr):
            return SHexStr(self.c + o.c, SBytes._norm(self.src.b + o.src.b))
        if isinstance(o, str) and len(o) % 2 == 0 and all(ch in '0123456789abcdef' for ch in o):
            return SHexStr(self.c + [ord(ch) for ch in o], SBytes._norm(self.src.b + list(bytes.fromhex(o))))
        return SStr.__add__(self, o)

    def __radd__(self, o):
        if isinstance(o, str) and len(o) % 2 == 0 and all(ch in '0123456789abcdef' for ch in o):
            return SHexStr([ord(ch) for ch in o] + self.c, SBytes._norm(list(bytes.fromhex(o)) + self.src.b))
        return SStr.__radd__(self, o)

    def lower(self):
        return self

    def lower_if_concrete(self):
        return SStr.lower_if_concrete(self) if self.is_concrete() else self


class SymTable:
    """bytes-like / str-like constant table that can be searched and indexed with symbolic values"""

    def __init__(self, data, text=False):
        self.text = text
        self.src = data
        self.d = [ord(c) for c in data] if isinstance(data, str) else list(data)

    def __len__(self):
        return len(self.d)

    def __iter__(self):
        return iter(self.src)

    def __getitem__(self, i):
        if isinstance(i, SInt):
            if not ((i >= 0) & (i < len(self.d))):
                raise modelled(IndexError("index out of range"))
            t = z3.BitVecVal(self.d[-1], _cur.W)
            for k in range(len(self.d) - 2, -1, -1):
                t = z3.If(i.t == k, z3.BitVecVal(self.d[k], _cur.W), t)
            r = mk_int(t, min(self.d), max(self.d))
            return _sch(r) if self.text else r
        if isinstance(i, slice):
            st, sp = i.start, i.stop
            if isinstance(st, SInt) and i.step is None:
                # table[idx:idx+1]
                one = self[st]
                return SStr([one.c]) if isinstance(one, SChar) else one
            return self.src[i]
        return self.src[i]

    def _code(self, v):
        if isinstance(v, SChar):
            return v.c
        if isinstance(v, str):
            return ord(v)
        return v

    def __contains__(self, v):
        v = self._code(v)
        if isinstance(v, SInt):
            return bool(mk_bool(z3.Or([v.t == c for c in self.d])))
        return v in self.d

    def index(self, v):
        v = self._code(v)
        if isinstance(v, SInt):
            found = mk_bool(z3.Or([v.t == c for c in self.d]))
            if not found:
                raise modelled(ValueError("subsection not found"))
            t = z3.BitVecVal(0, _cur.W)
            for k in range(len(self.d) - 1, -1, -1):
                t = z3.If(v.t == self.d[k], z3.BitVecVal(k, _cur.W), t)
            return mk_int(t, 0, len(self.d) - 1)
        return self.d.index(v)

    def find(self, v):
        v = self._code(v)
        if isinstance(v, SInt):
            t = z3.BitVecVal(-1, _cur.W)
            for k in range(len(self.d) - 1, -1, -1):
                t = z3.If(v.t == self.d[k], z3.BitVecVal(k, _cur.W), t)
            return mk_int(t, -1, len(self.d) - 1)
        try:
            return self.d.index(v)
        except ValueError:
            return -1


# ----------------------------------------------------------------------------------------------- explorer

class Explorer:
    def __init__(self, W=136, max_paths=200000, timeout_ms=120000, allow_symmul=False, budget_s=None, incremental=True):
        self.W = W
        self.incremental = incremental
        self.optimistic = False      # True: no feasibility checks at branches (infeasible paths are discharged vacuously)
        self.max_paths = max_paths
        self.timeout_ms = timeout_ms
        self.allow_symmul = allow_symmul
        self.budget_s = budget_s
        self.axiom_sources = []          # objects with .axioms() -> list of z3 facts (e.g. hash stubs)
        self.stats = dict(paths=0, aborted=0, queries=0, solver_s=0.0, decisions=0, obligations=0, discharged=0,
                          violations=[], known=[], unknown=0, validated=0, cuts=0, reached={})
        self.samples = []

    # --- symbolic inputs
    def int(self, name, lo, hi):
        v = SInt(z3.BitVec(name, self.W), lo, hi)
        self._add(z3.And(v.t >= lo, v.t <= hi))
        self.inputs[name] = v
        return v

    def bool(self, name):
        v = SBool(z3.Bool(name))
        self.inputs[name] = v
        return v

    def bytes(self, name, n):
        v = SBytes([z3.BitVec('%s_%d' % (name, i), 8) for i in range(n)])
        self.inputs[name] = v
        return v

    def text(self, name, n, lo=0, hi=255):
        cs = []
        for i in range(n):
            c = SInt(z3.BitVec('%s_%d' % (name, i), self.W), lo, hi)
            self._add(z3.And(c.t >= lo, c.t <= hi))
            cs.append(c)
        v = SStr(cs)
        self.inputs[name] = v
        return v

    def choose(self, name, options):
        """multi-way fork decided by the scheduler (structural choice: lengths, counts, configurations)"""
        options = list(options)
        for k, o in enumerate(options[:-1]):
            if self.branch(z3.Bool('%s#%d@%d' % (name, k, len(self.trace)))):
                self.choices[name] = o
                return o
        self.choices[name] = options[-1]
        return options[-1]

    def assume(self, c):
        if isinstance(c, SBool):
            self._add(c.t)
            c.refine(True)
            if self.optimistic:
                return
            if self._check() != z3.sat:
                raise PathAbort()
            self.model = self._model()
        elif not c:
            raise PathAbort()

    def cut(self, why):
        """end this path: the situation is outside the stated claim"""
        self.stats['cuts'] += 1
        self.cut_reasons = getattr(self, 'cut_reasons', {})
        self.cut_reasons[why] = self.cut_reasons.get(why, 0) + 1
        raise PathAbort()

    # --- solver plumbing
    def _add(self, c):
        self.pc.append(c)
        if self.incremental:
            self.solver.add(c)
        self.model = None

    def _check(self, *assumptions):
        if self.budget_s is not None and time.time() - self.t0 > self.budget_s:
            raise EngineLimit("time budget of %ss exhausted" % self.budget_s)
        t0 = time.time()
        r = self.solver.check(*assumptions) if self.incremental else z3.unknown
        if self.incremental:
            self.stats['queries'] += 1
            self.stats['solver_s'] += time.time() - t0
        if r == z3.unknown:
            # second opinion from a fresh (non-incremental) solver
            s = z3.Solver()
            s.set('timeout', self.timeout_ms)
            s.add(*self.pc)
            s.add(*assumptions)
            t0 = time.time()
            r = s.check()
            self.stats['queries'] += 1
            self.stats['solver_s'] += time.time() - t0
            if DEBUG and time.time() - t0 > 1.0:
                self._slow = getattr(self, '_slow', 0) + 1
                with open('/tmp/symx_slow_%d.smt2' % self._slow, 'w') as f:
                    f.write('; %s %.1fs\n' % (r, time.time() - t0))
                    for c in self.pc:
                        f.write('; PC %s\n' % c.sexpr().replace('\n', ' '))
                    for c in assumptions:
                        f.write('; AS %s\n' % c.sexpr().replace('\n', ' '))
            if r == z3.sat:
                self._fresh_model = s.model()
            if r == z3.unknown:
                self.stats['unknown'] += 1
                if DEBUG:
                    with open('/tmp/symx_unknown.smt2', 'w') as f:
                        f.write(s.to_smt2())
                raise EngineLimit("solver unknown (%s)" % s.reason_unknown())
        else:
            self._fresh_model = None
        return r

    def _model(self):
        return self._fresh_model if self._fresh_model is not None else self.solver.model()

    def branch(self, cond):
        i = len(self.trace)
        self.stats['decisions'] += 1
        if i < len(self.prefix):
            d = self.prefix[i]
        elif self.optimistic:
            d = True
            self.pending.append(self.trace + [False])
        else:
            side = None
            m = self.model
            if m is not None:
                v = m.eval(cond, model_completion=True)
                if z3.is_true(v):
                    side = True
                elif z3.is_false(v):
                    side = False
            if side is None:
                rt = self._check(cond)
                if rt == z3.sat:
                    self.model = self._model()
                    side = True
                    rf = self._check(z3.Not(cond))
                else:
                    rf = self._check(z3.Not(cond))
                    if rf == z3.sat:
                        self.model = self._model()
                        side = False
            elif side:
                rt = z3.sat
                rf = self._check(z3.Not(cond))
            else:
                rf = z3.sat
                rt = self._check(cond)
            if rt == z3.sat and rf == z3.sat:
                # follow the side the cached model satisfies; queue the other
                d = side
                self.pending.append(self.trace + [not d])
            elif rt == z3.sat:
                d = True
            elif rf == z3.sat:
                d = False
            else:
                raise PathAbort()
        self.trace.append(d)
        c = cond if d else z3.Not(cond)
        keep = self.model if i >= len(self.prefix) else None
        self.pc.append(c)
        if self.incremental:
            self.solver.add(c)
        self.model = keep          # the cached model satisfies the side we follow (by construction above)
        if DEBUG and self.model is not None:
            assert z3.is_true(self.model.eval(c, model_completion=True)), 'stale model'
        return d

    def concretize(self, v):
        """fork over all feasible values of v; the value tried is recorded in the trace so that a replayed prefix
        re-tries exactly the same value (models are not reproducible across re-executions)"""
        while True:
            i = len(self.trace)
            if i < len(self.prefix):
                _, val, d = self.prefix[i]
                self.stats['decisions'] += 1
                self.trace.append(('c', val, d))
                c = (v.t == val) if d else (v.t != val)
                self.pc.append(c)
                if self.incremental:
                    self.solver.add(c)
                self.model = None
                if d:
                    return val
                continue
            if self.model is None:
                if self._check() != z3.sat:
                    raise PathAbort()
                self.model = self._model()
            val = _num_value(self.model.eval(v.t, model_completion=True))
            self.stats['decisions'] += 1
            r = self._check(v.t != val)
            if r == z3.sat:
                self.pending.append(self.trace + [('c', val, False)])
            self.trace.append(('c', val, True))
            self.pc.append(v.t == val)
            if self.incremental:
                self.solver.add(v.t == val)
            return val

    # --- obligations
    def _axioms(self):
        ax = []
        for s in self.axiom_sources:
            ax += s.axioms()
        return ax

    def reach(self, tag):
        self.stats['reached'][tag] = self.stats['reached'].get(tag, 0) + 1

    def check(self, prop, oid, known=None):
        """Obligation at the end of a path: prop must hold for every model of the path condition.

        known: optional list of (finding_id, exempt) where `exempt` is an SBool/bool over the inputs describing the
        listed (known-finding) situation.  The obligation then is  prop OR exempt; if prop itself fails inside
        `exempt`, a KNOWN-FINDING witness is recorded instead of a violation."""
        self.stats['obligations'] += 1
        self.reach(oid)
        ax = self._axioms()
        exempt = False
        for kid, e in (known or []):
            exempt = s_or(exempt, e)
        goal = s_or(prop, exempt)
        if goal is True:
            r = z3.unsat
        else:
            _t = time.time()
            r = self._check(*(ax + [z3.Not(_b(goal))]))
            if DEBUG and time.time() - _t > 2:
                print('SLOW obligation %s: %.1fs' % (oid, time.time() - _t), flush=True)
        if r == z3.sat:
            m = self._model()
            self.stats['violations'].append(dict(obligation=oid, inputs=self.concretise_inputs(m),
                                                 path=len(self.trace)))
        else:
            self.stats['discharged'] += 1
        # known findings: does the listed deviation actually show on this path?
        for kid, e in (known or []):
            if e is False:
                continue
            q = s_and(e, s_not(prop))
            if q is False:
                continue
            rk = self._check(*(ax + ([] if q is True else [_b(q)])))
            if rk == z3.sat:
                m = self._model()
                self.stats['known'].append(dict(obligation=oid, finding=kid, inputs=self.concretise_inputs(m)))

    def concretise_inputs(self, m):
        cex = {}
        for k, v in self.inputs.items():
            cex[k] = self.eval(v, m)
        cex.update({'choice:' + k: v for k, v in self.choices.items()})
        return cex

    def fresh_id(self):
        self._fresh = getattr(self, '_fresh', 0) + 1
        return self._fresh

    def lint(self, name, lo, hi):
        from . import lia
        v = lia.LInt(z3.Int(name), lo, hi)
        self._add(z3.And(v.t >= lo, v.t <= hi))
        self.inputs[name] = v
        return v

    def eval(self, v, m):
        if isinstance(v, SInt):
            return m.eval(v.t, model_completion=True).as_signed_long()
        if type(v).__name__ == 'LInt':
            return m.eval(v.t, model_completion=True).as_long()
        if type(v).__name__ == 'SFloat':
            from fractions import Fraction
            n = self.eval(v.num, m)
            return float(Fraction(n, v.den) * Fraction(2) ** v.exp2)
        if isinstance(v, SBool):
            return bool(m.eval(v.t, model_completion=True))
        if isinstance(v, SBytes):
            return bytes(m.eval(_t8(x), model_completion=True).as_long() for x in v.b)
        if isinstance(v, SStr):
            return ''.join(chr(self.eval(x, m)) if isinstance(x, SInt) else chr(x) for x in v.c)
        if isinstance(v, SChar):
            return chr(self.eval(v.c, m))
        if isinstance(v, (list, tuple)):
            return type(v)(self.eval(x, m) for x in v)
        if isinstance(v, dict):
            return {k: self.eval(x, m) for k, x in v.items()}
        return v

    def witness(self):
        """a model of the current path condition (+axioms)"""
        ax = self._axioms()
        if ax or self.model is None:
            if self._check(*ax) != z3.sat:
                raise PathAbort()
            self.model = None
            return self._model()
        return self.model

    def _eval_witness(self, tries=2):
        """solver-light witness for optimistic/LIA paths: solve only the constraints that mention input variables
        alone (cheap), extend the assignment through the recorded definitions (fresh quotient/remainder variables are
        functions of the inputs) and check the whole path condition by evaluation"""
        in_ids = {}
        for v in self.inputs.values():
            t = getattr(v, 't', None)
            if t is not None and z3.is_const(t):
                in_ids[t.get_id()] = t

        def only_inputs(e):
            stack, seen = [e], set()
            while stack:
                x = stack.pop()
                i = x.get_id()
                if i in seen:
                    continue
                seen.add(i)
                if z3.is_const(x):
                    if x.decl().kind() == z3.Z3_OP_UNINTERPRETED and i not in in_ids:
                        return False
                else:
                    stack.extend(x.children())
            return True
        simple, lits = [], []
        for c in self.pc:
            if z3.is_const(c) and c.decl().kind() == z3.Z3_OP_UNINTERPRETED:
                lits.append((c, z3.BoolVal(True)))
            elif z3.is_not(c) and z3.is_const(c.arg(0)) and c.arg(0).decl().kind() == z3.Z3_OP_UNINTERPRETED:
                lits.append((c.arg(0), z3.BoolVal(False)))
            elif only_inputs(c):
                simple.append(c)
        s = z3.Solver()
        s.set('timeout', 5000)
        s.add(*simple)
        whole = z3.And(self.pc) if self.pc else z3.BoolVal(True)
        for _ in range(tries):
            if s.check() != z3.sat:
                return None
            m = s.model()
            pairs = list(lits)
            block = []
            for t in in_ids.values():
                val = m.eval(t, model_completion=True)
                pairs.append((t, val))
                block.append(t != val)
            for dvars, fn in self.defs:
                fn(pairs)
            em = EvalModel(pairs)
            if z3.is_true(em.eval(whole)):
                return em
            if not block:
                return None
            s.add(z3.Or(block))
        return None

    def validate(self, sym_out, concrete_fn, what=''):
        """Shim/engine self-check: run the real, unshimmed code on one concrete witness of this path and compare
        with the symbolic result evaluated under the same model.  Mismatch = harness error, not a verdict."""
        from . import shims
        if self.optimistic:
            m = self._eval_witness()
            if m is None:
                return
        else:
            m = self.witness()
        inp = self.concretise_inputs(m)
        want = self.eval(sym_out, m)
        with shims.unshimmed():
            got = concrete_fn(inp)
        if isinstance(got, SBytes):
            got = bytes(got)
        if got != want:
            raise HarnessError("witness replay mismatch %s: inputs=%r symbolic=%r concrete=%r" % (what, inp, want, got))
        self.stats['validated'] += 1
        if len(self.samples) < 6:
            self.samples.append(dict(path_decisions=len(self.trace), witness_inputs=_jsonable(inp),
                                     output=_jsonable(want)))

    def sample(self, **kw):
        if len(self.samples) < 6:
            self.samples.append(_jsonable(kw))

    def _infeasible(self):
        try:
            return self._check(*self._axioms()) == z3.unsat
        except EngineLimit:
            return False

    # --- driver
    def explore(self, fn):
        global _cur
        prev = _cur
        _cur = self
        self.t0 = time.time()
        self.pending = [[]]
        try:
            while self.pending:
                if self.stats['paths'] >= self.max_paths:
                    raise EngineLimit("path budget %d exhausted" % self.max_paths)
                self.prefix = self.pending.pop()
                self.trace, self.pc, self.inputs, self.choices = [], [], {}, {}
                self.path_memo = {}
                self.placeholders = []
                self.defs = []
                self._fresh = 0
                self.solver = z3.Solver()
                self.solver.set('timeout', self.timeout_ms)
                self.model = None
                self._fresh_model = None
                for s in self.axiom_sources:
                    s.reset()
                try:
                    fn(self)
                except PathAbort:
                    self.stats['aborted'] += 1
                except (EngineLimit, HarnessError):
                    if self.optimistic and self._infeasible():
                        self.stats['aborted'] += 1      # junk raised on a path that cannot happen (no pruning in this mode)
                    else:
                        raise
                except z3.Z3Exception as e:
                    raise HarnessError('z3 exception: %s' % e)
                except Exception as e:       # the analysed code raised something the harness does not expect
                    import traceback
                    if self.optimistic and self._infeasible():
                        self.stats['aborted'] += 1
                        self.stats['paths'] += 1
                        continue
                    org = 'repo' if getattr(e, '_symx_modelled', False) else exception_origin(e.__traceback__, e)
                    if org == 'engine':
                        raise EngineLimit('unsupported operation on a proxy: %s: %s\n%s' % (type(e).__name__, e, traceback.format_exc()[-1500:]))
                    if org == 'harness':
                        raise HarnessError('harness raised %s: %s\n%s' % (type(e).__name__, e, traceback.format_exc()[-1500:]))
                    self.stats['obligations'] += 1
                    oid = 'unexpected-exception:%s' % type(e).__name__
                    self.reach(oid)
                    try:
                        m = self.witness()
                    except PathAbort:
                        self.stats['aborted'] += 1
                    else:
                        self.stats['violations'].append(dict(obligation=oid, inputs=self.concretise_inputs(m),
                                                             path=len(self.trace), detail=str(e)[:300],
                                                             trace=traceback.format_exc()[-1200:]))
                self.stats['paths'] += 1
        finally:
            _cur = prev
        self.stats['wall_s'] = time.time() - self.t0
        return self.stats


def _num_value(x):
    return x.as_long() if z3.is_int_value(x) else x.as_signed_long()


PROXY_NAMES = ('SInt', 'SBool', 'SBytes', 'SStr', 'SChar', 'SDecStr', 'SymTable', 'LInt', 'SFloat', 'SDecF', 'SAmountStr', 'SBytesIO')


def exception_origin(tb, exc=None):
    """who raised: 'repo' (the analysed library, possibly inside C / stdlib code it called), 'engine' (a proxy / shim /
    z3 - an unsupported operation) or 'harness'"""
    if exc is not None and isinstance(exc, (AttributeError, TypeError)) and any(("'%s'" % n) in str(exc) for n in PROXY_NAMES):
        return 'engine'          # the analysed code used an operation the proxy does not implement
    origin = 'harness'
    verif = os.path.dirname(os.path.dirname(os.path.abspath(__file__))) + os.sep
    repo = os.path.realpath(os.environ.get('VT_REPO', '/repo')) + os.sep
    while tb is not None:
        fn = tb.tb_frame.f_code.co_filename
        if fn.startswith(repo):
            origin = 'repo'
        elif fn.startswith(os.path.join(verif, 'symx')) or os.sep + 'z3' + os.sep in fn:
            origin = 'engine'
        elif fn.startswith(verif):
            origin = 'harness'
        tb = tb.tb_next
    return origin


class EvalModel:
    """model given by an explicit assignment; evaluation by substitution + simplification"""

    def __init__(self, pairs):
        self.pairs = pairs

    def eval(self, t, model_completion=False):
        return z3.simplify(z3.substitute(t, *self.pairs)) if self.pairs else z3.simplify(t)


class HarnessError(BaseException):
    """the harness / engine failed its own self check (exit code 3)"""


def _jsonable(v):
    if isinstance(v, (bytes, bytearray)):
        return {'hex': bytes(v).hex()}
    if isinstance(v, dict):
        return {str(k): _jsonable(x) for k, x in v.items()}
    if isinstance(v, (list, tuple)):
        return [_jsonable(x) for x in v]
    if isinstance(v, (int, str, bool, float)) or v is None:
        return v
    return repr(v)


def from_jsonable(v):
    if isinstance(v, dict):
        if set(v.keys()) == {'hex'}:
            return bytes.fromhex(v['hex'])
        return {k: from_jsonable(x) for k, x in v.items()}
    if isinstance(v, list):
        return [from_jsonable(x) for x in v]
    return v


# ----------------------------------------------------------------------------------------------- concrete replay

class ConcreteEx:
    """Drop-in for Explorer that replays ONE recorded assignment on ordinary Python values, with no shims and no
    stubs: used to confirm a solver model against the real code before anything is reported."""
    concrete = True

    def __init__(self, inputs):
        self.inp = dict(inputs)
        self.failed = []        # (oid, known_finding_id or None)
        self.passed = []
        self.stats = dict(reached={})
        self.axiom_sources = []
        self.W = 0

    def _get(self, name):
        if name not in self.inp:
            raise HarnessError("replay file lacks input %r" % name)
        return self.inp[name]

    def int(self, name, lo, hi):
        v = self._get(name)
        if not (lo <= v <= hi):
            raise HarnessError("replay input %s=%r outside [%r,%r]" % (name, v, lo, hi))
        return v

    def fresh_id(self):
        self._fresh = getattr(self, '_fresh', 0) + 1
        return self._fresh

    def lint(self, name, lo, hi):
        return self.int(name, lo, hi)

    def bool(self, name):
        return bool(self._get(name))

    def bytes(self, name, n):
        v = self._get(name)
        if len(v) != n:
            raise HarnessError("replay input %s has wrong length" % name)
        return v

    def text(self, name, n, lo=0, hi=255):
        return self._get(name)

    def choose(self, name, options):
        v = self._get('choice:' + name)
        for o in options:
            if o == v or _jsonable(o) == v:
                return o
        raise HarnessError("replay choice %s=%r not among options" % (name, v))

    def assume(self, c):
        if not c:
            raise PathAbort()

    def cut(self, why):
        raise PathAbort()

    def reach(self, tag):
        pass

    def check(self, prop, oid, known=None):
        if prop:
            self.passed.append(oid)
            return
        for kid, e in (known or []):
            if e:
                self.failed.append((oid, kid))
                return
        self.failed.append((oid, None))

    def validate(self, *a, **k):
        pass

    def sample(self, **kw):
        pass


Explorer.concrete = False
