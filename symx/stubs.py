"""Opaque primitives as uninterpreted symbols (every stub is an assumption listed in the evidence)."""
import z3
from . import core
from .core import SBytes, SInt, mk_bool, _t8


class HashStub:
    """Uninterpreted hash: each call returns fresh byte symbols; Ackermann axioms make it a function
    (same preimage => same digest) and collision-free (same digest => same preimage; the stated cryptographic
    assumption that turns 'same digest' into 'same preimage')."""

    def __init__(self, name, outlen=32, injective=True):
        self.name, self.outlen, self.injective = name, outlen, injective
        self.calls = []

    def reset(self):
        self.calls = []

    def __call__(self, data, as_hex=False):
        data = SBytes.lift(data) if not isinstance(data, SBytes) else data
        # functional consistency by construction when the very same term list is hashed again
        for pre, out in self.calls:
            if len(pre) == len(data) and all((a is b) or (isinstance(a, int) and isinstance(b, int) and a == b) or
                                              (not isinstance(a, int) and not isinstance(b, int) and a.eq(b))
                                              for a, b in zip(pre.b, data.b)):
                return out.hex() if as_hex else out
        out = SBytes([z3.BitVec('%s%d_%d' % (self.name, len(self.calls), i), 8) for i in range(self.outlen)])
        self.calls.append((data, out))
        return out.hex() if as_hex else out

    def axioms(self):
        ax = []
        for i in range(len(self.calls)):
            for j in range(i):
                (pi, oi), (pj, oj) = self.calls[i], self.calls[j]
                eo = z3.And([a == b for a, b in zip(oi.term(), oj.term())])
                if len(pi) != len(pj):
                    if self.injective:
                        ax.append(z3.Not(eo))
                else:
                    ep = z3.And([a == b for a, b in zip(pi.term(), pj.term())]) if len(pi) else z3.BoolVal(True)
                    ax.append((ep == eo) if self.injective else z3.Implies(ep, eo))
        return ax

    def table(self, ex, m):
        """concrete lookup table preimage->digest under model m (for witness replay with the same 'hash')"""
        return {ex.eval(p, m): ex.eval(o, m) for p, o in self.calls}


class FoldStub:
    """Uninterpreted fold over a list of small integers (e.g. the Bech32 polymod): fresh symbolic result per call,
    functional consistency by Ackermann axioms (equal argument lists => equal results)."""

    def __init__(self, name, bits):
        self.name, self.bits = name, bits
        self.calls = []

    def reset(self):
        self.calls = []

    def __call__(self, values):
        values = list(values)
        W = core.cur().W
        out = core.SInt(z3.BitVec('%s%d' % (self.name, len(self.calls)), W), 0, (1 << self.bits) - 1)
        core.cur()._add(z3.And(out.t >= 0, out.t < (1 << self.bits)))
        self.calls.append((values, out))
        return out

    def axioms(self):
        ax = []
        for i in range(len(self.calls)):
            for j in range(i):
                (vi, oi), (vj, oj) = self.calls[i], self.calls[j]
                if len(vi) == len(vj):
                    eq = z3.And([core._bv(a) == core._bv(b) for a, b in zip(vi, vj)]) if vi else z3.BoolVal(True)
                    ax.append(z3.Implies(eq, oi.t == oj.t))
        return ax
