"""A stand-in for an SQLAlchemy session whose tables are lists of row objects that may carry symbolic column values.

The analysed code builds its queries with the REAL SQLAlchemy expression API (DbTransactionOutput.value >= amount,
.is_(False), .in_([...]), .desc(), or_(...)); this module evaluates those expression objects over the stand-in rows, so
the part of the selection logic that the library delegates to SQL (filters, ordering, first()) is decided together with
the Python part.  Comparisons on symbolic values fork like any other branch of the analysed code.

Modelled: filter / filter_by (conjunction), comparison operators, is_ / is_not / in_ / not in, and_ / or_ / not_,
order_by (appended, asc / desc, stable), first / all / scalar / count / limit, join (navigation through the attributes
named in NAV).  NULL handling: a None column compares false.  Ordering of ties is the insertion order of the rows
(SQL leaves it unspecified).  Anything else raises EngineLimit.  The model is validated by replaying every
counterexample against a real sqlite database."""
import operator
from . import core

# table name -> how to reach the row of that table from a row of the queried entity
NAV = {
    'transaction_outputs': {'transaction_outputs': lambda r: r, 'transactions': lambda r: r.transaction, 'keys': lambda r: r.key},
    'transaction_inputs': {'transaction_inputs': lambda r: r, 'transactions': lambda r: r.transaction, 'keys': lambda r: r.key},
    'keys': {'keys': lambda r: r, 'wallets': lambda r: r.wallet},
    'transactions': {'transactions': lambda r: r},
    'wallets': {'wallets': lambda r: r},
}


class Row:
    def __init__(self, **kw):
        self.__dict__.update(kw)

    def __repr__(self):
        return '<Row %s>' % getattr(self, '_tag', '')


def _truth(x):
    return bool(x)          # symbolic booleans fork here


def _col(e, row, table):
    tn = e.table.name
    nav = NAV.get(table, {}).get(tn)
    if nav is None:
        raise core.EngineLimit("sqlmini: column %s.%s not reachable from %s" % (tn, e.name, table))
    target = nav(row)
    return getattr(target, e.name)


def ev(e, row, table):
    """value of an SQLAlchemy expression element for one row"""
    cn = type(e).__name__
    if cn in ('AnnotatedColumn', 'Column') or hasattr(e, 'table') and hasattr(e, 'name') and not hasattr(e, 'operator'):
        return _col(e, row, table)
    if cn == 'InstrumentedAttribute':
        return ev(e.expression, row, table)
    if cn == 'BindParameter':
        return e.value
    if cn in ('False_',):
        return False
    if cn in ('True_',):
        return True
    if cn == 'Null':
        return None
    if cn == 'Grouping':
        return ev(e.element, row, table)
    if cn == 'BooleanClauseList':
        vals = [ev(c, row, table) for c in e.clauses]
        if e.operator is operator.or_:
            for v in vals:
                if _truth(v):
                    return True
            return False
        for v in vals:
            if not _truth(v):
                return False
        return True
    if cn == 'UnaryExpression' and getattr(e.operator, '__name__', '') == 'inv':
        return not _truth(ev(e.element, row, table))
    if cn == 'BinaryExpression':
        op = getattr(e.operator, '__name__', str(e.operator))
        a = ev(e.left, row, table)
        b = ev(e.right, row, table)
        if op in ('is_', 'is_not', 'isnot'):
            r = (a is b) if isinstance(a, bool) or a is None or b is None else (a == b)
            r = _truth(r)
            return r if op == 'is_' else not r
        if op in ('in_op', 'not_in_op', 'notin_op'):
            r = any(_truth(a == x) for x in b)
            return r if op == 'in_op' else not r
        if a is None or b is None:
            return False
        f = {'ge': operator.ge, 'gt': operator.gt, 'le': operator.le, 'lt': operator.lt, 'eq': operator.eq, 'ne': operator.ne}.get(op)
        if f is None:
            raise core.EngineLimit("sqlmini: operator %s" % op)
        return f(a, b)
    raise core.EngineLimit("sqlmini: expression %s" % cn)


class Query:
    def __init__(self, session, table, rows, filters=(), order=(), lim=None, project=None):
        self.session, self.table, self.rows = session, table, rows
        self.filters, self.order, self.lim, self.project = tuple(filters), tuple(order), lim, project

    def _new(self, **kw):
        d = dict(session=self.session, table=self.table, rows=self.rows, filters=self.filters, order=self.order, lim=self.lim, project=self.project)
        d.update(kw)
        return Query(**d)

    def join(self, *a, **k):
        return self
    outerjoin = options = distinct = join

    def filter(self, *exprs):
        return self._new(filters=self.filters + tuple(exprs))

    def filter_by(self, **kw):
        return self._new(filters=self.filters + tuple(('attr', k, v) for k, v in kw.items()))

    def order_by(self, *cols):
        return self._new(order=self.order + tuple(cols))

    def limit(self, n):
        return self._new(lim=n)

    def _match(self, row):
        for f in self.filters:
            if isinstance(f, tuple):
                if not _truth(getattr(row, f[1]) == f[2]):
                    return False
            elif not _truth(ev(f, row, self.table)):
                return False
        return True

    def _key(self, c, row):
        desc = type(c).__name__ == 'UnaryExpression' and getattr(c.modifier, '__name__', '') == 'desc_op'
        return ev(c.element if type(c).__name__ == 'UnaryExpression' else c, row, self.table), desc

    def _before(self, a, b):
        """does row a sort strictly before row b under the ORDER BY list?"""
        for c in self.order:
            ka, desc = self._key(c, a)
            kb, _ = self._key(c, b)
            if _truth(ka == kb):
                continue
            lt = _truth(ka < kb)
            return (not lt) if desc else lt
        return False

    def all(self):
        out = [r for r in self.rows if self._match(r)]
        srt = []
        for r in out:                       # stable insertion sort (ties keep insertion order)
            i = len(srt)
            while i > 0 and self._before(r, srt[i - 1]):
                i -= 1
            srt.insert(i, r)
        if self.lim is not None:
            srt = srt[:self.lim]
        if self.project:
            return [tuple(ev(p, r, self.table) for p in self.project) for r in srt]
        return srt

    def first(self):
        r = self.all()
        return r[0] if r else None

    def scalar(self):
        r = self.all()
        if not r:
            return None
        return r[0][0] if self.project else r[0]

    one_or_none = scalar

    def count(self):
        return len(self.all())

    def update(self, *a, **k):
        raise core.EngineLimit("sqlmini: update")


class Session:
    """tables: {sqlalchemy table name: [Row, ...]}"""

    def __init__(self, tables):
        self.tables = tables

    def query(self, *ents):
        e = ents[0]
        if hasattr(e, '__tablename__'):
            return Query(self, e.__tablename__, self.tables.get(e.__tablename__, []))
        ex = getattr(e, 'expression', e)
        tn = ex.table.name
        return Query(self, tn, self.tables.get(tn, []), project=[getattr(x, 'expression', x) for x in ents])

    def close(self, *a, **k):
        pass
    commit = rollback = flush = bulk_update_mappings = bulk_save_objects = add = merge = expire_all = close
