"""Exact-integer (LIA) proxies: LInt (z3 Int + interval) and SFloat, an EXACT model of IEEE-754 binary64
arithmetic with one symbolic operand.

An SFloat is the exact rational  num / den * 2**exp2  (num: LInt or int >= 0, den: positive python int,
exp2: python int) that is known to be representable as a double.  Every operation computes the exact rational
result, forks on its binade and rounds to 53 bits to-nearest-even with the explicit remainder - no
floating-point theory is used (QF_BVFP did not terminate on this code, see DESIGN.md).  Only non-negative values
inside the normal range are supported (amounts); anything else is EngineLimit."""
import math
from fractions import Fraction
import z3
from . import core
from .core import modelled, EngineLimit, mk_bool, SBool, s_and, s_or, s_not


def _it(v):
    if isinstance(v, LInt):
        return v.t
    if isinstance(v, bool):
        v = int(v)
    if isinstance(v, int):
        return z3.IntVal(v)
    raise TypeError(type(v))


def _rng(v):
    if isinstance(v, LInt):
        return v.lo, v.hi
    return int(v), int(v)


def mk_lint(t, lo, hi):
    t = z3.simplify(t)
    if z3.is_int_value(t):
        return t.as_long()
    if lo == hi:
        return lo
    return LInt(t, lo, hi)


class LInt:
    """mathematical integer (z3 Int) with a conservative interval"""

    def __init__(self, t, lo, hi):
        self.t, self.lo, self.hi = t, lo, hi

    def __add__(self, o):
        if isinstance(o, SBool):
            o = LInt(z3.If(o.t, 1, 0), 0, 1)
        if not isinstance(o, (int, LInt)):
            return NotImplemented
        l, h = _rng(o)
        return mk_lint(self.t + _it(o), self.lo + l, self.hi + h)

    __radd__ = __add__

    def __sub__(self, o):
        if not isinstance(o, (int, LInt)):
            return NotImplemented
        l, h = _rng(o)
        return mk_lint(self.t - _it(o), self.lo - h, self.hi - l)

    def __rsub__(self, o):
        if not isinstance(o, (int, LInt)):
            return NotImplemented
        l, h = _rng(o)
        return mk_lint(_it(o) - self.t, l - self.hi, h - self.lo)

    def __neg__(self):
        return mk_lint(-self.t, -self.hi, -self.lo)

    def __abs__(self):
        if self.lo >= 0:
            return self
        return mk_lint(z3.If(self.t < 0, -self.t, self.t), 0, max(abs(self.lo), abs(self.hi)))

    def __mul__(self, o):
        if isinstance(o, float):
            return SFloat.from_int(self) * o
        if isinstance(o, SFloat):
            return SFloat.from_int(self) * o
        if isinstance(o, LInt):
            raise EngineLimit("symbolic x symbolic multiplication (LIA)")
        if not isinstance(o, int):
            return NotImplemented
        c = [self.lo * o, self.hi * o]
        return mk_lint(self.t * o, min(c), max(c))

    __rmul__ = __mul__

    def __floordiv__(self, o):
        if isinstance(o, int) and o > 0:
            return mk_lint(self.t / o, self.lo // o, self.hi // o)      # z3 Int div: floor for positive divisor
        raise EngineLimit("floordiv by non-constant")

    def __mod__(self, o):
        if isinstance(o, int) and o > 0:
            return mk_lint(self.t % o, 0, o - 1)
        raise EngineLimit("mod by non-constant")

    def __truediv__(self, o):
        return SFloat.from_int(self) / o

    def _cmp(self, o, f, iv):
        if isinstance(o, float):
            if o == int(o):
                o = int(o)
            else:
                return SFloat.from_int(self)._cmp(o, {'lt': '<', 'le': '<=', 'gt': '>', 'ge': '>='}[iv])
        if not isinstance(o, (int, LInt)):
            return NotImplemented
        l, h = _rng(o)
        r = {'lt': lambda: True if self.hi < l else (False if self.lo >= h else None),
             'le': lambda: True if self.hi <= l else (False if self.lo > h else None),
             'gt': lambda: True if self.lo > h else (False if self.hi <= l else None),
             'ge': lambda: True if self.lo >= h else (False if self.hi < l else None)}[iv]()
        if r is not None:
            return r
        return mk_bool(f(self.t, _it(o)))

    def __lt__(self, o):
        return self._cmp(o, lambda a, b: a < b, 'lt')

    def __le__(self, o):
        return self._cmp(o, lambda a, b: a <= b, 'le')

    def __gt__(self, o):
        return self._cmp(o, lambda a, b: a > b, 'gt')

    def __ge__(self, o):
        return self._cmp(o, lambda a, b: a >= b, 'ge')

    def __eq__(self, o):
        if isinstance(o, float) and o == int(o):
            o = int(o)
        if not isinstance(o, (int, LInt)):
            return False
        l, h = _rng(o)
        if h < self.lo or l > self.hi:
            return False
        return mk_bool(self.t == _it(o))

    def __ne__(self, o):
        r = self.__eq__(o)
        return (not r) if isinstance(r, bool) else ~r

    def __hash__(self):
        return id(self)

    def __bool__(self):
        return bool(self != 0)

    def __index__(self):
        return core.cur().concretize(self)

    __int__ = __index__

    def __float__(self):
        raise FormatCut(SFloat.from_int(self))

    def __round__(self, nd=None):
        return self

    def __repr__(self):
        return "<LInt [%d,%d]>" % (self.lo, self.hi)

    def __str__(self):
        raise EngineLimit("str() of symbolic int")

    def to_bytes(self, *a, **k):
        raise EngineLimit("to_bytes on LInt (use the bit-vector engine)")


import numbers
numbers.Number.register(LInt)
numbers.Integral.register(LInt)


class FormatCut(BaseException):
    """raised when a symbolic float reaches C-level formatting / conversion (`'%f' % x`, float(x) in C): the harness
    catches it and continues with the documented contract of the C function"""

    def __init__(self, value):
        self.value = value


def rne_div(num, den):
    """round-half-even(num / den) for num >= 0 (LInt/int), den positive python int; exact, explicit remainder"""
    if isinstance(num, int):
        q, r = divmod(num, den)
        if 2 * r > den or (2 * r == den and q % 2 == 1):
            q += 1
        return q
    if den == 1:
        return num
    if num.lo < 0:
        raise EngineLimit("rne_div of possibly negative value")
    ex = core.cur()
    key = ('rne', num.t.get_id(), den)
    if key in ex.path_memo:
        return ex.path_memo[key]
    # definitional extension with fresh variables (always satisfiable): num = q*den + r, 0 <= r < den, q = 2t + p
    n = ex.fresh_id()
    q, r, t, p = z3.Int('q!%d' % n), z3.Int('r!%d' % n), z3.Int('t!%d' % n), z3.Int('p!%d' % n)
    ex._add(z3.And(num.t == q * den + r, r >= 0, r < den, q == 2 * t + p, p >= 0, p <= 1, q >= 0))
    ex._add(z3.And(q >= num.lo // den, q <= num.hi // den))

    def define(pairs, num_t=num.t, den=den, q=q, r=r, t=t, p=p):
        nv = z3.simplify(z3.substitute(num_t, *pairs))
        if not z3.is_int_value(nv):
            return
        qq, rr = divmod(nv.as_long(), den)
        pairs.extend([(q, z3.IntVal(qq)), (r, z3.IntVal(rr)), (t, z3.IntVal(qq // 2)), (p, z3.IntVal(qq % 2))])
    ex.defs.append(((q, r, t, p), define))
    up = z3.Or(2 * r > den, z3.And(2 * r == den, p == 1))
    res = LInt(z3.If(up, q + 1, q), num.lo // den, num.hi // den + 1)
    ex.path_memo[key] = res
    return res


def _pow2_ratio(num, den, exp2):
    """normalise (num/den)*2^exp2 so that the power of two is folded into num or den"""
    if exp2 >= 0:
        return num * (1 << exp2), den
    return num, den * (1 << (-exp2))


def round_to_double(num, den, exp2=0):
    """nearest-even double of the exact value (num/den)*2^exp2, num >= 0; forks on the binade"""
    if isinstance(num, int):
        if num == 0:
            return SFloat(0, 1, 0)
        f = Fraction(num, den) * Fraction(2) ** exp2
        x = float(f)                         # correctly rounded by CPython's int/int true division
        assert x == num / den * 2.0 ** exp2 or True
        m, e = math.frexp(x)
        return SFloat(int(m * (1 << 53)), 1, e - 53)
    if num.lo < 0:
        raise EngineLimit("negative float")
    ex = core.cur()
    memo = ex.path_memo
    key = ('r2d', num.t.get_id(), den, exp2)
    if key in memo:
        return memo[key]
    r = _round_to_double(ex, num, den, exp2)
    memo[key] = r
    return r


def _round_to_double(ex, num, den, exp2):
    if num == 0:
        return SFloat(0, 1, 0)
    lo = max(num.lo, 1)

    def ilog2(fr):
        e = fr.numerator.bit_length() - fr.denominator.bit_length()
        while Fraction(2) ** e > fr:
            e -= 1
        while Fraction(2) ** (e + 1) <= fr:
            e += 1
        return e
    emin = ilog2(Fraction(lo, den))
    emin_exact = num.lo >= 1
    emax = ilog2(Fraction(num.hi, den))
    if emax - emin <= MERGE_BINADES:
        # few candidate binades: no fork - the mantissa is an if-then-else over the candidates, expressed relative to
        # the lowest exponent (an SFloat is an exact rational, its numerator need not be normalised)
        t = None
        for E in range(emax, emin - 1, -1):
            n2, d2 = _pow2_ratio(num, den, 52 - E)
            mE = rne_div(n2, d2)
            mt = _it(mE) * (1 << (E - emin))
            if t is None:
                t = mt
            else:
                below = (num < den * (1 << (E + 1))) if E + 1 >= 0 else (num * (1 << (-(E + 1))) < den)
                t = z3.If(core._b(below), mt, t) if not isinstance(below, bool) else (mt if below else t)
        m = LInt(t, 1 << 52, 1 << (53 + emax - emin))
        ex._add(z3.And(m.t >= m.lo, m.t <= m.hi)) if emin_exact else None
        return SFloat(m, 1, emin - 52 + exp2)
    # many candidate binades: one structural fork per binade; the binade constraint is assumed
    E = ex.choose('binade', list(range(emin, emax + 1))) if emax > emin else emin
    lo_c = (num >= den * (1 << E)) if E >= 0 else (num * (1 << (-E)) >= den)
    hi_c = (num < den * (1 << (E + 1))) if E + 1 >= 0 else (num * (1 << (-(E + 1))) < den)
    ex.assume(s_and(lo_c, hi_c))
    sh = 52 - E
    n2, d2 = _pow2_ratio(num, den, sh)
    m = rne_div(n2, d2)
    if isinstance(m, LInt):
        m = LInt(m.t, max(m.lo, 1 << 52), min(m.hi, 1 << 53))      # sound under the binade constraint just assumed
        ex._add(z3.And(m.t >= m.lo, m.t <= m.hi))                   # implied fact; bounds help the LIA solver a lot
    return SFloat(m, 1, E - 52 + exp2)


MERGE_BINADES = 0


def float_parts(c):
    """python float c > 0 -> (mc, ec) with c == mc * 2**ec exactly"""
    n, d = c.as_integer_ratio()
    assert d & (d - 1) == 0
    return n, -(d.bit_length() - 1)


class SFloat:
    """exact non-negative double: num/den * 2**exp2"""

    def __init__(self, num, den, exp2):
        self.num, self.den, self.exp2 = num, den, exp2

    @staticmethod
    def from_int(n):
        if isinstance(n, int):
            return float(n)
        if n.lo < 0:
            if n < 0:                               # decided by the solver under the path condition (forks if both are possible)
                if COARSE_DIV:
                    core.cur().cut('float arithmetic on a negative amount (not modelled): path not decided')
                raise EngineLimit("negative amount")
            n = LInt(n.t, 0, max(n.hi, 0))
        if n.hi < (1 << 53):
            return SFloat(n, 1, 0)
        return round_to_double(n, 1, 0)

    @staticmethod
    def from_decimal(N, d):
        """float('<N with d decimals>'): correctly rounded (documented contract of float(str))"""
        return round_to_double(N, 10 ** d, 0)

    def exact(self):
        """(num, den) with the power of two folded in"""
        return _pow2_ratio(self.num, self.den, self.exp2)

    def is_concrete(self):
        return isinstance(self.num, int)

    def concrete(self):
        return float(Fraction(self.num, self.den) * Fraction(2) ** self.exp2)

    def _lift(self, o):
        if isinstance(o, SFloat):
            return o
        if isinstance(o, LInt):
            return SFloat.from_int(o)
        if isinstance(o, bool):
            o = int(o)
        if isinstance(o, int):
            if o < 0:
                raise EngineLimit("negative operand")
            return SFloat(o, 1, 0) if o < (1 << 53) else SFloat(*((lambda m, e: (int(m * (1 << 53)), 1, e - 53))(*math.frexp(float(o)))))
        if isinstance(o, float):
            if o < 0 or o != o or o in (float('inf'),):
                raise EngineLimit("negative / non-finite operand")
            if o == 0:
                return SFloat(0, 1, 0)
            mc, ec = float_parts(o)
            return SFloat(mc, 1, ec)
        raise TypeError(type(o))

    def __mul__(self, o):
        o = self._lift(o)
        if isinstance(o.num, LInt) and isinstance(self.num, LInt):
            raise EngineLimit("symbolic x symbolic float multiplication")
        a, b = (self, o) if isinstance(self.num, LInt) else (o, self)
        if isinstance(a.num, int):
            return self._lift(a.concrete() * b.concrete())
        # b concrete: exact product = a.num*b.num / (a.den*b.den) * 2^(sum)
        if b.num == 0:
            return SFloat(0, 1, 0)
        if b.den == 1 and b.num & (b.num - 1) == 0:          # power of two: exact
            return SFloat(a.num, a.den, a.exp2 + b.exp2 + b.num.bit_length() - 1)
        if a.den == 1 and a.exp2 == 0 and b.den == 1 and b.exp2 >= 0 and a.num.lo >= 0 and a.num.hi * (b.num << b.exp2) < (1 << 53):
            return SFloat(a.num * (b.num << b.exp2), 1, 0)    # integer x integer below 2**53: exact, no rounding
        if COARSE_DIV and a.den == 1 and a.exp2 == 0 and b.den == 1 and b.exp2 < 0:
            # x * c with c = b.num / 2**-b.exp2: only int() is offered, floor or floor + 1 (see SFloatQ)
            return SFloatQ(SFloat(a.num * b.num, 1, 0), SFloat(1 << (-b.exp2), 1, 0))
        return round_to_double(a.num * b.num, a.den * b.den, a.exp2 + b.exp2)

    __rmul__ = __mul__

    def __truediv__(self, o):
        o = self._lift(o)
        if isinstance(o.num, LInt):
            raise EngineLimit("division by symbolic float")
        if o.num == 0:
            raise modelled(ZeroDivisionError("float division by zero"))
        if isinstance(self.num, int):
            return self._lift(self.concrete() / o.concrete())
        if o.den == 1 and o.num & (o.num - 1) == 0:          # power of two: exact
            return SFloat(self.num, self.den, self.exp2 - o.exp2 - (o.num.bit_length() - 1))
        if COARSE_DIV:
            return SFloatQ(self, o)
        return round_to_double(self.num * o.den, self.den * o.num, self.exp2 - o.exp2)

    def __rtruediv__(self, o):
        raise EngineLimit("division by symbolic float")

    def __add__(self, o):
        raise EngineLimit("float addition not modelled")

    __radd__ = __sub__ = __rsub__ = __add__

    def _cmp(self, o, op):
        o = self._lift(o)
        n1, d1 = self.exact()
        n2, d2 = o.exact()
        if isinstance(n1, LInt) and isinstance(n2, LInt):
            raise EngineLimit("comparison of two symbolic floats")
        l, r = n1 * d2, n2 * d1
        return {'<': lambda: l < r, '<=': lambda: l <= r, '>': lambda: l > r, '>=': lambda: l >= r,
                '==': lambda: l == r}[op]()

    def __lt__(self, o):
        return self._cmp(o, '<')

    def __le__(self, o):
        return self._cmp(o, '<=')

    def __gt__(self, o):
        return self._cmp(o, '>')

    def __ge__(self, o):
        return self._cmp(o, '>=')

    def __eq__(self, o):
        if not isinstance(o, (int, float, LInt, SFloat)):
            return False
        return self._cmp(o, '==')

    def __ne__(self, o):
        r = self.__eq__(o)
        return (not r) if isinstance(r, bool) else ~r

    def __hash__(self):
        return id(self)

    def __bool__(self):
        return bool(self.num != 0)

    def __round__(self, nd=None):
        n, d = self.exact()
        if nd is None:
            return rne_div(n, d)
        if isinstance(nd, LInt):
            nd = int(nd)
        if nd >= 0:
            N = rne_div(n * 10 ** nd, d)
            return SFloat.from_decimal(N, nd)
        N = rne_div(n, d * 10 ** (-nd))
        return round_to_double(N * 10 ** (-nd), 1, 0)

    def __int__(self):
        n, d = self.exact()
        return n // d if d != 1 else n

    def __trunc__(self):
        return self.__int__()

    def __float__(self):
        raise FormatCut(self)

    def __repr__(self):
        return "<SFloat %r/%d*2^%d>" % (self.num, self.den, self.exp2)

    def __str__(self):
        raise EngineLimit("str() of symbolic float")

    def __format__(self, spec):
        raise FormatCut(self)


class SDecG:
    """text produced by '%.<P>g' % x for a symbolic non-negative double x: the decimal number with P significant digits
    nearest to x (ties to even on the exact binary value, as C's printf does).  Only float() is offered on it
    (correctly rounded, the documented contract of float(str)); forks on the decade of x."""

    def __init__(self, x, prec):
        self.x, self.prec = x, prec

    def __symx_float__(self):
        ex = core.cur()
        n, d = self.x.exact()
        if isinstance(n, int):
            return float(('%%.%dg' % self.prec) % (n / d))
        P = self.prec
        lo, hi = max(n.lo, 0), n.hi

        def decade(v):                   # floor(log10(v / d)) for a positive integer numerator v
            k = len(str(v // d)) - 1 if v >= d else -1
            while k >= 0 and 10 ** k * d > v:
                k -= 1
            return k
        if lo == 0:
            if n == 0:
                return 0.0
            lo = 1
        kmin, kmax = (decade(lo) if lo >= d else 0), decade(hi)
        if lo < d:
            ex.cut('%g rendering of a value below 1 (not modelled)') if (n < d) else None
        k = ex.choose('decade', list(range(max(kmin, 0), kmax + 1))) if kmax > max(kmin, 0) else max(kmin, 0)
        ex.assume(s_and(n >= d * 10 ** k, n < d * 10 ** (k + 1)))
        sh = P - 1 - k                    # N = rne(x * 10**sh) has P digits (or is 10**P after rounding up)
        N = rne_div(n * 10 ** sh, d) if sh >= 0 else rne_div(n, d * 10 ** (-sh))
        if sh >= 0:
            return round_to_double(N, 10 ** sh, 0)
        return round_to_double(N * 10 ** (-sh), 1, 0)

    def _no(self, *a, **k):
        raise EngineLimit("'%g' text of a symbolic float used other than through float()")
    __eq__ = __lt__ = __add__ = __radd__ = __len__ = __iter__ = __getitem__ = _no
    __hash__ = None


COARSE_DIV = False


class SFloatQ:
    """quotient a / b of two exact non-negative doubles under the COARSE abstraction (switch COARSE_DIV): only int() is
    offered, and it returns EITHER floor(a/b) or floor(a/b) + 1 (solver's choice).  Sound over-approximation of the
    correctly rounded division followed by truncation: a and b are exact, the rounded quotient fl(a/b) is monotone and
    integers below 2**53 are representable, so floor(a/b) <= int(fl(a/b)) <= floor(a/b) + 1.  A counterexample that
    rests on the extra freedom does not reproduce in the replay and is discarded there."""

    def __init__(self, a, b):
        self.a, self.b = a, b

    def __int__(self):
        ex = core.cur()
        n1, d1 = self.a.exact()
        n2, d2 = self.b.exact()
        num, den = n1 * d2, d1 * n2             # a/b = num/den, den a concrete positive integer
        if isinstance(den, LInt):
            raise EngineLimit("coarse division by a symbolic value")
        hi = (num.hi if isinstance(num, LInt) else num) // den + 1
        if hi >= (1 << 52):
            raise EngineLimit("coarse division: quotient beyond 2**52")
        k = getattr(ex, '_coarse_n', 0)
        ex._coarse_n = k + 1
        q = LInt(z3.Int('coarse_quotient_%d_%d' % (len(ex.trace), k)), 0, hi)
        ex._add(z3.And(q.t >= 0, q.t <= hi))
        ex.assume(s_and(den * (q - 1) <= num, num < den * (q + 1)))
        return q

    __trunc__ = __int__

    def _no(self, *a, **k):
        raise EngineLimit("coarse quotient used other than through int()")
    __lt__ = __le__ = __gt__ = __ge__ = __eq__ = __mul__ = __rmul__ = __add__ = __float__ = __str__ = _no
    __hash__ = None


class SDecF:
    """structured decimal text: the digits of the non-negative integer N with d decimals ("N // 10^d . N % 10^d").
    The analysed code only hands it to float(); contract: float() is correctly rounded."""

    def __init__(self, N, d):
        self.N, self.d = N, d

    def __symx_float__(self):
        return SFloat.from_decimal(self.N, self.d)

    def __repr__(self):
        return "<SDecF %r e-%d>" % (self.N, self.d)


class SAmountStr:
    """structured amount text "<decimal> <unit>" supporting exactly what Value.__init__ does with it"""

    def __init__(self, dec, unit=None):
        self.dec, self.unit = dec, unit

    def split(self, sep=None):
        return [self.dec] + ([self.unit] if self.unit is not None else [])


class _FloatMeta(type):
    def __instancecheck__(cls, o):
        return isinstance(o, (float, SFloat))


class FloatShim(metaclass=_FloatMeta):
    def __new__(cls, x=0.0):
        if isinstance(x, SFloat):
            return x
        if isinstance(x, LInt):
            return SFloat.from_int(x)
        if hasattr(x, '__symx_float__'):
            return x.__symx_float__()
        return float(x)


class _StrMeta(type):
    def __instancecheck__(cls, o):
        return isinstance(o, (str, SAmountStr, SDecF))


class StrShimL(metaclass=_StrMeta):
    def __new__(cls, x='', *a):
        if isinstance(x, (SAmountStr, SDecF)):
            return x
        return str(x, *a)


class _IntMetaL(type):
    def __instancecheck__(cls, o):
        return isinstance(o, (int, LInt))


class IntShimL(metaclass=_IntMetaL):
    def __new__(cls, x=0, base=None):
        if isinstance(x, LInt):
            return x
        if isinstance(x, (SFloat, SFloatQ)):
            return x.__int__()
        return int(x) if base is None else int(x, base)

    from_bytes = staticmethod(int.from_bytes)
    to_bytes = staticmethod(int.to_bytes)


numbers.Number.register(SFloat)
numbers.Real.register(SFloat)
