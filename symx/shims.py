"""Module-global rebinding: the analysed modules are not edited.  Names such as `int`, `bytes`, `len`, `BytesIO`
are rebound in the *globals of the analysed module objects* (module globals shadow builtins) so that proxies
survive C-level builtins.  On concrete arguments every shim delegates to the builtin."""
import contextlib
import io
import z3
from . import core
from .core import modelled, SInt, SBool, SBytes, SStr, SChar, SymTable, SHexStr, EngineLimit, mk_bool, mk_int, _bv, _t8

_installed = []      # (module, name, had, original)
_MISSING = object()


def install(module, **names):
    for name, val in names.items():
        orig = module.__dict__.get(name, _MISSING)
        _installed.append((module, name, orig, val))
        setattr(module, name, val)


def uninstall_all():
    while _installed:
        module, name, orig, _ = _installed.pop()
        if orig is _MISSING:
            delattr(module, name)
        else:
            setattr(module, name, orig)


@contextlib.contextmanager
def unshimmed():
    """temporarily restore the original globals (used for witness replay against the real code)"""
    saved = list(_installed)
    for module, name, orig, _ in reversed(saved):
        if orig is _MISSING:
            if name in module.__dict__:
                delattr(module, name)
        else:
            setattr(module, name, orig)
    prev = core._cur
    core._cur = None
    try:
        yield
    finally:
        core._cur = prev
        for module, name, orig, val in saved:
            setattr(module, name, val)


# --------------------------------------------------------------------------------------------- int

class _IntMeta(type):
    def __instancecheck__(cls, o):
        return isinstance(o, (int, SInt))


class IntShim(metaclass=_IntMeta):
    """replacement for the name `int`"""

    def __new__(cls, x=0, base=None):
        if isinstance(x, SInt):
            return x
        if isinstance(x, SBool):
            return core.s_ite(x, 1, 0)
        if hasattr(x, '__symx_int__'):
            return x.__symx_int__()
        if isinstance(x, SHexStr) and base == 16 and len(x.c) > 0:
            return IntShim.from_bytes(x.src, 'big')
        if isinstance(x, (SStr, SChar)):
            return _parse_int(SStr.lift(x), base or 10)
        return int(x) if base is None else int(x, base)

    @staticmethod
    def from_bytes(b, byteorder='big', signed=False):
        if isinstance(b, SBytes):
            if signed:
                # two's complement: the unsigned value, minus 2**(8n) when the top bit is set (forks on the sign)
                n = len(b.b)
                if n == 0:
                    return 0
                u = IntShim.from_bytes(b, byteorder, False)
                top = b.b[0] if byteorder == 'big' else b.b[n - 1]
                neg = (top & 0x80) != 0 if isinstance(top, int) else bool(SInt(z3.ZeroExt(core._cur.W - 8, _t8(top)), 0, 255) >= 0x80)
                return u - (1 << (8 * n)) if neg else u
            org = getattr(b, '_origin', None)
            if org is not None and org[1] == len(b.b) and org[2] == byteorder:
                return org[0]
            items = b.b if byteorder == 'little' else b.b[::-1]      # little endian order
            if not items:
                return 0
            if all(isinstance(x, int) for x in items):
                return int.from_bytes(bytes(items), 'little')
            # strip constant-zero high bytes so that the width check is about the value range
            n = len(items)
            while n > 1 and isinstance(items[n - 1], int) and items[n - 1] == 0:
                n -= 1
            items = items[:n]
            W = core._cur.W
            if 8 * n >= W:
                raise EngineLimit("from_bytes of %d bytes too wide for W=%d" % (n, W))
            t = z3.Concat([_t8(x) for x in reversed(items)]) if n > 1 else _t8(items[0])
            return mk_int(z3.ZeroExt(W - 8 * n, t), 0, (1 << (8 * n)) - 1)
        return int.from_bytes(b, byteorder, signed=signed)

    @staticmethod
    def to_bytes(x, length=1, byteorder='big', signed=False):
        return x.to_bytes(length, byteorder, signed=signed) if isinstance(x, SInt) else int.to_bytes(x, length, byteorder, signed=signed)


def _parse_int(s, base):
    """int(text) for symbolic text of digits (no sign/whitespace/underscore support: those paths are cut)"""
    if len(s) == 0:
        raise modelled(ValueError("invalid literal for int()"))
    acc = 0
    for c in s.c:
        if isinstance(c, int):
            ch = chr(c)
            if ch not in '0123456789abcdefABCDEF'[:10 if base == 10 else 22]:
                raise modelled(ValueError("invalid literal for int()"))
            d = int(ch, base)
        else:
            if base == 10:
                ok = (c >= 48) & (c <= 57)
                if not ok:
                    # '+', '-', ' ', '_' and unicode digits are accepted by int(); outside the claim
                    if bool((c == 43) | (c == 45) | (c == 32) | (c == 95) | ((c >= 9) & (c <= 13)) | (c > 127)):
                        core._cur.cut("int() of text with sign/whitespace/underscore/non-ascii")
                    raise modelled(ValueError("invalid literal for int()"))
                d = c - 48
            elif base == 16:
                isd = (c >= 48) & (c <= 57)
                isl = (c >= 97) & (c <= 102)
                isu = (c >= 65) & (c <= 70)
                if not (isd | isl | isu):
                    if bool((c == 43) | (c == 45) | (c == 32) | (c == 95) | ((c >= 9) & (c <= 13)) | (c > 127)):
                        core._cur.cut("int() of text with sign/whitespace/underscore/non-ascii")
                    raise modelled(ValueError("invalid literal for int()"))
                d = mk_int(z3.If(c.t <= 57, c.t - 48, z3.If(c.t >= 97, c.t - 87, c.t - 55)), 0, 15)
            else:
                raise EngineLimit("int(text, base=%r)" % base)
        acc = acc * base + d
    return acc


# --------------------------------------------------------------------------------------------- bytes

class _BytesMeta(type):
    def __instancecheck__(cls, o):
        return isinstance(o, (bytes, SBytes))


class BytesShim(metaclass=_BytesMeta):
    def __new__(cls, x=b'', *a):
        if isinstance(x, SBytes):
            return x
        if isinstance(x, (SStr, SChar)):
            return SStr.lift(x).encode()
        if isinstance(x, (list, tuple)) and any(isinstance(i, SInt) for i in x):
            return SBytes(list(x))
        if isinstance(x, SInt):
            return bytes(x.concretize())
        if not a and not isinstance(x, (bytes, bytearray, memoryview, str, int, list, tuple)) and hasattr(type(x), '__bytes__'):
            return type(x).__bytes__(x)          # python-level __bytes__ may hand back proxies
        return bytes(x, *a)

    @staticmethod
    def fromhex(x):
        if not isinstance(x, (SStr, SChar)):
            return bytes.fromhex(x)
        if isinstance(x, SHexStr):
            return x.src.lower_if_concrete()
        x = SStr.lift(x)

        def ishex(c):
            return z3.Or(z3.And(c >= 48, c <= 57), z3.And(c >= 97, c <= 102), z3.And(c >= 65, c <= 70))

        def isws(c):
            return z3.Or(c == 32, z3.And(c >= 9, c <= 13))
        cs = [_bv(c) for c in x.c]
        if (mk_bool(z3.And([ishex(c) for c in cs])) if cs else True):
            if len(cs) % 2:
                raise modelled(ValueError('non-hexadecimal number found in fromhex() arg'))
            def nib(c):
                return z3.If(c <= 57, c - 48, z3.If(c >= 97, c - 87, c - 55))
            out = []
            for i in range(0, len(cs), 2):
                out.append(mk_int(nib(cs[i]) * 16 + nib(cs[i + 1]), 0, 255))
            return SBytes(out)
        if mk_bool(z3.Or([isws(c) for c in cs])):
            core._cur.cut("bytes.fromhex of text containing whitespace")
        raise modelled(ValueError('non-hexadecimal number found in fromhex() arg'))
class _StrMeta(type):
    def __instancecheck__(cls, o):
        return isinstance(o, (str, SStr, SChar))


class StrShim(metaclass=_StrMeta):
    def __new__(cls, x='', *a):
        if isinstance(x, (SStr, SChar)):
            return x
        if isinstance(x, SInt):
            return SDecStr(x)
        if isinstance(x, SBytes) and a:
            return x.decode(*a)
        return str(x, *a)


class SDecStr(SStr):
    """decimal rendering of a symbolic int kept as a structured value: the analysed code only concatenates it or
    converts it back with int(); assumed contract int(str(i)) == i.  Comparison with another rendering is
    equality of the integers."""

    def __init__(self, i, suffix=''):
        self.i = i
        self.suffix = suffix
        self.c = None

    def __symx_int__(self):
        if self.suffix:
            raise modelled(ValueError("invalid literal for int()"))
        return self.i

    def __len__(self):
        raise EngineLimit("len of symbolic decimal rendering")

    def __bool__(self):
        return True

    def __add__(self, o):
        if isinstance(o, str):
            return SDecStr(self.i, self.suffix + o)
        raise EngineLimit("concat on decimal rendering")

    def __radd__(self, o):
        raise EngineLimit("concat on decimal rendering")

    def __getitem__(self, k):
        if self.suffix:
            if k == -1:
                return self.suffix[-1]
            if isinstance(k, slice) and k.start is None and k.step is None and isinstance(k.stop, int) and -len(self.suffix) <= k.stop < 0:
                return SDecStr(self.i, self.suffix[:k.stop])
        else:
            if k == -1:
                if self.i.lo < 0:
                    raise EngineLimit("negative rendering")
                d = self.i % 10          # last decimal digit: a real character (the caller may test `ch in "..."`)
                return chr(48 + (d.concretize() if isinstance(d, SInt) else d))
            if k == 0 and self.i.lo >= 0 and self.i.hi <= 9:
                return SChar(self.i + 48)
        raise EngineLimit("indexing a decimal rendering")

    def rstrip(self, chars=None):
        if chars is None or any(c.isdigit() or c == '-' for c in chars):
            raise EngineLimit("rstrip of digits on a decimal rendering")
        return SDecStr(self.i, self.suffix.rstrip(chars))

    def endswith(self, x):
        if self.suffix and isinstance(x, str) and len(x) <= len(self.suffix):
            return self.suffix.endswith(x)
        if not self.suffix and isinstance(x, str) and x and not x[-1].isdigit():
            return False
        raise EngineLimit("endswith on a decimal rendering")

    def isdigit(self):
        return self.suffix == '' and bool(self.i >= 0)

    def __eq__(self, o):
        if isinstance(o, SDecStr):
            if self.suffix != o.suffix:
                return False
            return self.i == o.i
        if isinstance(o, str):
            if self.suffix:
                if not o.endswith(self.suffix):
                    return False
                o = o[:-len(self.suffix)]
            if not o or not (o.isdigit() or (o[0] == '-' and o[1:].isdigit())) or str(int(o)) != o:
                return False
            return self.i == int(o)
        return False

    def __ne__(self, o):
        r = self == o
        return (not r) if isinstance(r, bool) else ~r

    def __hash__(self):
        return id(self)

    def __repr__(self):
        return "<SDecStr %r+%r>" % (self.i, self.suffix)


def len_shim(x):
    return len(x)


def ord_shim(x):
    if isinstance(x, SChar):
        return x.c
    if isinstance(x, SStr) and len(x) == 1:
        return x.c[0]
    if isinstance(x, SBytes):
        if len(x) != 1:
            raise modelled(TypeError("ord() expected a character"))
        return x[0]
    return ord(x)


def chr_shim(x):
    if isinstance(x, SInt):
        return SChar(x)
    return chr(x)


def abs_shim(x):
    return abs(x)


def isinstance_shim(o, t):
    """isinstance that treats proxies as their concrete counterparts"""
    if isinstance(o, SInt):
        ts = t if isinstance(t, tuple) else (t,)
        return any(x is int or x is IntShim or (isinstance(x, type) and issubclass(int, x) and x is not bool) or isinstance(o, x) for x in ts if x is not bool)
    if isinstance(o, SBytes):
        ts = t if isinstance(t, tuple) else (t,)
        return any(x is bytes or x is BytesShim or isinstance(o, x) for x in ts)
    if isinstance(o, (SStr, SChar)):
        ts = t if isinstance(t, tuple) else (t,)
        return any(x is str or x is StrShim or isinstance(o, x) for x in ts)
    if isinstance(o, SBool):
        ts = t if isinstance(t, tuple) else (t,)
        return any(x is bool or x is int or isinstance(o, x) for x in ts)
    if isinstance(o, SBytesIO):
        ts = t if isinstance(t, tuple) else (t,)
        return any(x is io.BytesIO or x is SBytesIO or isinstance(o, x) for x in ts)
    return isinstance(o, t)


class SBytesIO:
    """pure-Python stand-in for io.BytesIO over bytes / SBytes"""

    def __init__(self, data=b''):
        self.d = data if isinstance(data, SBytes) else SBytes(list(data))
        self.p = 0

    def read(self, n=-1):
        if isinstance(n, SInt):
            n = n.concretize()
        if n is None or n < 0:
            n = len(self.d) - self.p
        r = SBytes._norm(self.d.b[self.p:self.p + n])
        self.p = min(len(self.d), self.p + n)
        return r.lower_if_concrete()

    def tell(self):
        return self.p

    def seek(self, off, whence=0):
        if isinstance(off, SInt):
            off = off.concretize()
        if whence == 0:
            self.p = off
        elif whence == 1:
            self.p += off
        else:
            self.p = len(self.d) + off
        return self.p

    def getvalue(self):
        return self.d.lower_if_concrete()

    def __bool__(self):
        return True


STD = dict(int=IntShim, bytes=BytesShim)


# --------------------------------------------------------------------------------------------- source-level rewriting
import ast as _ast
import builtins as _builtins
import re as _re
import inspect as _inspect
import textwrap as _textwrap


def symx_join(sep, items):
    """sep.join(items) that keeps proxies (bytes / str separators)"""
    items = list(items)
    if all(isinstance(x, (bytes, bytearray)) for x in items) and isinstance(sep, (bytes, bytearray)):
        return sep.join(items)
    if all(isinstance(x, str) for x in items) and isinstance(sep, str):
        return sep.join(items)
    if isinstance(sep, (bytes, bytearray)):
        out = SBytes([])
        for k, x in enumerate(items):
            if k and sep:
                out = out + sep
            out = out + (x if isinstance(x, SBytes) else SBytes.lift(x))
        return out.lower_if_concrete()
    out = SStr([])
    for k, x in enumerate(items):
        if k and sep:
            out = out + sep
        out = out + x
    return out.lower_if_concrete()


class _IntFloat:
    """float(<symbolic int below 2**53>): exactly that integer; only is_integer() is offered"""

    def __init__(self, v):
        self.v = v

    def is_integer(self):
        return True


def float_of_int_shim(x=0.0):
    """replacement for the name `float` where the analysed code only calls float(n).is_integer() on integers"""
    if isinstance(x, SInt):
        if x.hi >= 2 ** 53 or x.lo <= -2 ** 53:
            raise EngineLimit("float() of a symbolic int beyond 2**53")
        return _IntFloat(x)
    return float(x)


def hex_digits(x):
    """lower-case hex digits of a non-negative SInt without leading zeros; forks on the number of digits"""
    from .core import SHexStr
    if isinstance(x, int):
        return '%x' % x
    if x.lo < 0 and not (x >= 0):
        raise core.EngineLimit("hex rendering of a negative symbolic int")
    lo, n = 1, max(1, (max(x.hi, 1).bit_length() + 3) // 4)
    while lo < n:                                   # binary search: log2(#digits) decisions per path
        mid = (lo + n) // 2
        if x < (1 << (4 * mid)):
            n = mid
        else:
            lo = mid + 1
    nb = (n + 1) // 2
    h = x.to_bytes(nb, 'big').hex()
    return h if n % 2 == 0 else core.SStr(h.c[1:])


class _Hex0x(SStr):
    """'0x' + digits: the usual hex(x)[2:] gives the structured digit string back"""

    def __init__(self, digits):
        self.digits = digits

    c = property(lambda self: [48, 120] + list(self.digits.c))

    def __getitem__(self, i):
        if isinstance(i, slice) and i.start == 2 and i.stop is None and i.step is None:
            return self.digits
        return SStr.__getitem__(self, i)


class SHexLazy(SStr):
    """hex digits of a non-negative SInt whose count is decided (forked on) only when something looks at it:
    zero-filling to a width that always fits needs no fork at all"""

    def __init__(self, x):
        self.x, self._f = x, None

    def force(self):
        if self._f is None:
            self._f = SStr.lift(hex_digits(self.x))
        return self._f

    c = property(lambda self: self.force().c)

    def zfill(self, m):
        if m % 2 == 0 and self.x.lo >= 0 and self.x.hi < (1 << (4 * m)):
            return self.x.to_bytes(m // 2, 'big').hex()
        return self.force().zfill(m)

    def __add__(self, o):
        return self.force() + o

    def __radd__(self, o):
        return o + self.force()

    def upper(self):
        return self.force().upper()


def hex_shim(x):
    if isinstance(x, core.SInt):
        return _Hex0x(SHexLazy(x))
    return _builtins.hex(x)


_FMT = _re.compile(r'%(?P<flags>[-#0 +]*)(?P<width>\d+)?(?:\.(?P<prec>\d+))?(?P<type>[sdxXrfgeiu%])')


def symx_mod(fmt, args):
    """<literal> % args that keeps proxies (%s / %d / %x with optional zero-padding width)"""
    tup = args if isinstance(args, tuple) else (args,)
    if not any(isinstance(a, (core.SInt, core.SStr, core.SBytes, core.SChar)) or type(a).__name__ in ('LInt', 'SFloat', 'SFloatQ') for a in tup):
        return fmt % args
    out, pos, k = core.SStr([]), 0, 0
    for m in _FMT.finditer(fmt):
        out = out + fmt[pos:m.start()]
        pos = m.end()
        if m.group('type') == '%':
            out = out + '%'
            continue
        a = tup[k]
        k += 1
        t, flags, width = m.group('type'), m.group('flags') or '', int(m.group('width') or 0)
        if type(a).__name__ == 'SFloat' and t == 'g' and m.group('prec') and fmt == m.group(0):
            from . import lia
            return lia.SDecG(a, int(m.group('prec')))          # the whole text is one '%.<P>g' rendering of a symbolic double
        if type(a).__name__ in ('LInt', 'SFloat', 'SFloatQ') or (isinstance(a, core.SInt) and t in 'sd'):
            # decimal text of a symbolic number (error / log messages): an indexed placeholder, as SInt.__str__ does
            out = out + core._placeholder(a)
            continue
        if not isinstance(a, (core.SInt, core.SStr, core.SChar)):
            out = out + (('%' + flags + (m.group('width') or '') + ('.' + m.group('prec') if m.group('prec') else '') + t) % (a,))
            continue
        if m.group('prec') or flags.strip('0'):
            raise core.EngineLimit("format spec %r on a symbolic value" % m.group(0))
        if isinstance(a, core.SInt) and t in 'xX':
            r = SHexLazy(a)
            if width and '0' in flags:
                r, width = r.zfill(width), 0
            r = r.upper() if t == 'X' else r
        elif isinstance(a, (core.SStr, core.SChar)) and t == 's':
            r = core.SStr.lift(a)
        else:
            raise core.EngineLimit("format spec %r on %s" % (m.group(0), type(a).__name__))
        if width > len(r):
            r = (('0' if '0' in flags and t != 's' else ' ') * (width - len(r))) + r
        out = out + r
    out = out + fmt[pos:]
    if '%' in fmt[pos:].replace('%%', ''):
        raise core.EngineLimit("unparsed format string %r" % fmt)
    return out.lower_if_concrete()


class _JoinRewriter(_ast.NodeTransformer):
    def visit_BinOp(self, node):
        self.generic_visit(node)
        if isinstance(node.op, _ast.Mod) and isinstance(node.left, _ast.Constant) and isinstance(node.left.value, str):
            return _ast.copy_location(_ast.Call(func=_ast.Name(id='__symx_mod', ctx=_ast.Load()), args=[node.left, node.right], keywords=[]), node)
        return node

    def visit_Call(self, node):
        self.generic_visit(node)
        f = node.func
        if isinstance(f, _ast.Attribute) and f.attr == 'join' and isinstance(f.value, _ast.Constant) and \
                isinstance(f.value.value, (bytes, str)) and len(node.args) == 1 and not node.keywords:
            return _ast.copy_location(_ast.Call(func=_ast.Name(id='__symx_join', ctx=_ast.Load()), args=[f.value, node.args[0]], keywords=[]), node)
        return node


def rewrite_function(owner, name):
    """Re-compile one function of the analysed library from its CURRENT source with `<literal>.join(x)` replaced by a
    proxy-aware join (the C-level join cannot take proxies).  The replacement is installed like any other shim and is
    undone by uninstall_all()/unshimmed()."""
    raw = owner.__dict__[name] if isinstance(owner, type) else getattr(owner, name)
    fn = raw.__func__ if isinstance(raw, (classmethod, staticmethod)) else (raw.fget if isinstance(raw, property) else raw)
    src = _textwrap.dedent(_inspect.getsource(fn))
    tree = _JoinRewriter().visit(_ast.parse(src))
    _ast.fix_missing_locations(tree)
    ns = fn.__globals__
    ns['__symx_join'] = symx_join
    ns['__symx_mod'] = symx_mod
    loc = {}
    exec(compile(tree, _inspect.getsourcefile(fn) or '<rewritten>', 'exec'), ns, loc)
    new = loc[fn.__name__]
    _installed.append((owner, name, raw, new))
    setattr(owner, name, new)
