#!/bin/bash
# Build the overlay venv used by all checks (offline). Idempotent, safe to call concurrently.
set -e
V="$(cd "$(dirname "${BASH_SOURCE[0]}")" && pwd)/.venv"
exec 9>"/tmp/.verif_venv_$(echo "$V" | md5sum | cut -c1-8).lock"
flock 9
if [ -x "$V/bin/python" ] && "$V/bin/python" -c "import crosshair, z3, bitcoinlib" 2>/dev/null; then
    exit 0
fi
rm -rf "$V"
/venv/bin/python -m venv "$V"
SP=$("$V/bin/python" -c "import sysconfig; print(sysconfig.get_paths()['purelib'])")
echo "import site; site.addsitedir('/venv/lib/python3.12/site-packages')" > "$SP/_overlay.pth"
PIP_NO_INDEX=1 "$V/bin/pip" install -q --no-index --find-links /opt/veriftools/wheels crosshair-tool >/dev/null
"$V/bin/python" -c "import crosshair, z3, bitcoinlib; print('venv ok', z3.get_version_string())"
