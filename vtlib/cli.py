"""vt: run the solver-based checks.
  vt check <Cnn> [--tier quick|thorough] [--only JOB[,JOB]] [--jobs N]
  vt replay <replay file>
exit codes: 0 all obligations discharged (KNOWN-FINDING lines allowed) | 1 VIOLATION | 2 inconclusive |
3 harness / engine self-check failed"""
import argparse
import concurrent.futures as cf
import importlib
import json
import os
import shutil
import subprocess
import sys
import tempfile
import time

VERIF = os.path.dirname(os.path.dirname(os.path.abspath(__file__)))
REPO = os.environ.get('VT_REPO', '/repo')


def _env(datadir):
    env = dict(os.environ)
    env['PYTHONPATH'] = VERIF + os.pathsep + env.get('PYTHONPATH', '')
    env['BCL_DATA_DIR'] = datadir
    env['PYTHONHASHSEED'] = '0'
    env['PYTHONDONTWRITEBYTECODE'] = '1'
    env.pop('BITCOINLIB_VERIF', None)
    return env


def _run_job(hname, tier, job, env, scratch):
    out = os.path.join(scratch, 'job_%s.json' % job.name.replace('/', '_'))
    cmd = [sys.executable, '-m', 'vtlib.job', hname, tier, job.name, out]
    limit = (job.budget_s if job.engine == 'sx' else job.ch_timeout * 3 + 120) + 120
    t0 = time.time()
    try:
        p = subprocess.run(cmd, env=env, cwd=VERIF, capture_output=True, text=True, timeout=limit)
        if os.path.exists(out):
            with open(out) as f:
                res = json.load(f)
        else:
            res = dict(job=job.name, status='error', reason='job process died (exit %s): %s' % (p.returncode, p.stderr[-2000:]))
    except subprocess.TimeoutExpired:
        res = dict(job=job.name, status='inconclusive', reason='job exceeded %ds wall' % limit)
    res.setdefault('wall_s', time.time() - t0)
    res['engine'] = job.engine
    return res


def _replay(path, env):
    p = subprocess.run([sys.executable, '-m', 'vtlib.replay', path], env=env, cwd=VERIF, capture_output=True, text=True,
                       timeout=600)
    line = [l for l in p.stdout.splitlines() if l.startswith('REPLAY ')]
    return p.returncode, (line[-1] if line else (p.stdout + p.stderr)[-800:])


def cmd_check(a):
    prop = a.property.upper()
    tier = a.tier or os.environ.get('VERIF_TIER') or 'quick'
    seed = int(os.environ.get('VERIF_SEED', '0') or 0)
    hname = 'harness.%s' % prop.lower()
    t0 = time.time()
    scratch = tempfile.mkdtemp(prefix='vt_%s_' % prop)
    datadir = os.path.join(scratch, 'bcl')
    os.makedirs(datadir)
    env = _env(datadir)
    os.environ.update({k: env[k] for k in ('BCL_DATA_DIR', 'PYTHONHASHSEED')})
    # initialise the library's data directory once (it copies networks.json / providers.json from the current tree on first
    # import); concurrent first imports by the job processes would race on those files
    subprocess.run([sys.executable, '-c', 'import bitcoinlib'], env=env, cwd=VERIF, capture_output=True, timeout=300)
    sys.path.insert(0, VERIF)
    evdir = os.environ.get('VT_EVIDENCE_DIR') or os.path.join(VERIF, 'evidence')   # (override: developer runs against seeded changes)
    os.makedirs(os.path.join(evdir, 'replays'), exist_ok=True)
    if not a.only:
        for fn in os.listdir(os.path.join(evdir, 'replays')):
            if fn.startswith(prop + '-'):
                os.remove(os.path.join(evdir, 'replays', fn))
    code = 0
    try:
        h = importlib.import_module(hname)
        jobs = h.jobs(tier)
        if a.only:
            keep = set(a.only.split(','))
            jobs = [j for j in jobs if j.name in keep or any(j.name.startswith(k) for k in keep)]
        names = [j.name for j in jobs]
        assert len(set(names)) == len(names), 'duplicate job names'
        # longest first
        order = sorted(jobs, key=lambda j: -(getattr(j, 'cost', 1)))
        results = {}
        with cf.ThreadPoolExecutor(max_workers=a.jobs) as pool:
            futs = {pool.submit(_run_job, hname, tier, j, env, scratch): j for j in order}
            for fut in cf.as_completed(futs):
                j = futs[fut]
                results[j.name] = fut.result()
                r = results[j.name]
                if a.verbose:
                    print('  job %-40s %-12s paths=%s oblig=%s/%s viol=%s known=%s %.1fs %s' % (
                        j.name, r.get('status'), r.get('paths'), r.get('discharged'), r.get('obligations'),
                        r.get('n_violations'), r.get('n_known'), r.get('wall_s', 0), r.get('reason', '')[:200]), flush=True)
        # ---- verdicts
        violations, known_lines, harness_errors, inconclusive, known_unreproduced = [], [], [], [], []
        for j in jobs:
            r = results[j.name]
            if r['status'] == 'error':
                harness_errors.append('%s: %s' % (j.name, r.get('reason')))
                if a.verbose and r.get('trace'):
                    print(r['trace'])
            elif r['status'] == 'inconclusive':
                inconclusive.append('%s: %s' % (j.name, r.get('reason')))
            seen_ob = set()
            for v in r.get('violations', []):
                if v['obligation'] in seen_ob:
                    continue
                seen_ob.add(v['obligation'])
                path = os.path.join(evdir, 'replays', '%s-%s-%s.json' % (prop, j.name.replace('/', '_'), v['obligation'].replace('/', '_').replace(':', '_')))
                with open(path, 'w') as f:
                    json.dump(dict(property=prop, harness=hname, tier=tier, job=j.name, obligation=v['obligation'],
                                   inputs=v['inputs'], detail=v.get('detail')), f, indent=1)
                rc, line = _replay(path, env)
                from vtlib import api as _api
                if rc == 10 and getattr(j, 'known_finding', None) and _api.kf_listed(j.known_finding):
                    known_lines.append((j.known_finding, v['obligation'], v['inputs']))
                elif rc == 10:
                    violations.append((path, v['obligation'], line))
                else:
                    harness_errors.append('%s: solver model for %s did not reproduce on the real code (%s)' % (j.name, v['obligation'], line[:300]))
            for k in r.get('known', []):
                path = os.path.join(scratch, 'known_%s_%s.json' % (j.name.replace('/', '_'), k['finding']))
                with open(path, 'w') as f:
                    json.dump(dict(property=prop, harness=hname, tier=tier, job=j.name, obligation=k['obligation'],
                                   inputs=k['inputs']), f)
                rc, line = _replay(path, env)
                if rc == 14:
                    known_lines.append((k['finding'], k['obligation'], k['inputs']))
                else:
                    # a listed deviation that shows only under an abstraction (e.g. an all-zero digest of an uninterpreted
                    # hash) is not reported and is not an error: nothing is suppressed by it either
                    known_unreproduced.append('%s: %s on %s' % (j.name, k['finding'], k['obligation']))
        from vtlib import api
        printed = set()
        for fid, ob, inp in known_lines:
            if fid in printed:
                continue
            printed.add(fid)
            e = api.kf_entry(fid) or {}
            print('KNOWN-FINDING: property=%s %s %s' % (prop, fid, e.get('what', '')))
        for path, ob, line in violations:
            print('VIOLATION property=%s replay=%s' % (prop, path))
            print('  obligation %s: %s' % (ob, line[:400]))
        for m in harness_errors:
            print('HARNESS-ERROR %s' % m)
        for m in inconclusive:
            print('INCONCLUSIVE %s' % m)
        if harness_errors:
            code = 3
        elif violations:
            code = 1
        elif inconclusive:
            code = 2
        if violations:
            code = 1          # a violation confirmed by concrete replay stands, whatever else went wrong
        # ---- evidence
        tot = lambda k: sum(int(r.get(k) or 0) for r in results.values())
        funcs = sorted(set(f for r in results.values() for f in r.get('functions', [])))
        samples = []
        for j in jobs:
            for s in results[j.name].get('samples', [])[:2]:
                samples.append(dict(job=j.name, **s) if isinstance(s, dict) else dict(job=j.name, sample=s))
        samples = samples[:40] or [dict(note='no samples recorded')]
        ev = dict(
            property_id=prop, tier=tier, seed=seed, level='model_checking',
            coverage=dict(
                states=max(1, tot('paths')), transitions=max(1, tot('decisions')),
                traces_validated_against_impl=tot('validated'),
                samples=samples,
                obligations=tot('obligations'), discharged=tot('discharged'),
                solver_queries=tot('queries'), solver_seconds=round(sum(float(r.get('solver_s') or 0) for r in results.values()), 2),
                jobs=len(jobs), jobs_ok=sum(1 for r in results.values() if r['status'] == 'ok'),
                functions_encoded=funcs,
                bounds=getattr(h, 'BOUNDS', {}).get(tier, getattr(h, 'BOUNDS', {})),
                outside_bounds=getattr(h, 'OUTSIDE', ''),
                engines=sorted(set(j.engine for j in jobs)),
                known_findings_shown=sorted(printed),
                inconclusive=inconclusive, harness_errors=harness_errors, known_witness_not_reproduced=known_unreproduced[:20],
                per_job={j.name: {k: results[j.name].get(k) for k in ('status', 'engine', 'paths', 'aborted', 'decisions', 'queries', 'solver_s', 'obligations', 'discharged', 'validated', 'cuts', 'cut_reasons', 'n_violations', 'n_known', 'wall_s', 'W', 'note', 'params', 'reason', 'reached') if results[j.name].get(k) not in (None, {}, '')} for j in jobs},
                explanation='states = explored execution paths of the real functions (CrossHair conditions count 1 each); transitions = branch decisions taken by the path scheduler; every obligation is the SMT query path_condition AND axioms AND NOT property; discharged = unsat.',
            ),
            assumptions=list(getattr(h, 'ASSUMPTIONS', [])),
            wall_s=round(time.time() - t0, 2),
            violations=len(violations),
        )
        # a run restricted with --only is a developer run: it must not replace the evidence of the full check
        with open(os.path.join(evdir, ('%s.partial.json' if a.only else '%s.json') % prop), 'w') as f:
            json.dump(ev, f, indent=1)
        print('%s tier=%s jobs=%d paths=%d obligations=%d discharged=%d queries=%d known=%d violations=%d exit=%d wall=%.1fs' % (
            prop, tier, len(jobs), tot('paths'), tot('obligations'), tot('discharged'), tot('queries'), len(printed), len(violations), code, time.time() - t0))
    finally:
        shutil.rmtree(scratch, ignore_errors=True)
    return code


def cmd_replay(a):
    sys.path.insert(0, VERIF)
    scratch = tempfile.mkdtemp(prefix='vt_replay_')
    try:
        datadir = os.path.join(scratch, 'bcl')
        os.makedirs(datadir)
        env = _env(datadir)
        rc, line = _replay(os.path.abspath(a.file), env)
        print(line)
        return 1 if rc == 10 else 0
    finally:
        shutil.rmtree(scratch, ignore_errors=True)


def main():
    ap = argparse.ArgumentParser(prog='vt')
    sub = ap.add_subparsers(dest='cmd', required=True)
    c = sub.add_parser('check')
    c.add_argument('property')
    c.add_argument('--tier', choices=['quick', 'thorough'])
    c.add_argument('--only')
    c.add_argument('--jobs', type=int, default=min(16, os.cpu_count() or 4))
    c.add_argument('-v', '--verbose', action='store_true')
    r = sub.add_parser('replay')
    r.add_argument('file')
    a = ap.parse_args()
    sys.exit(cmd_check(a) if a.cmd == 'check' else cmd_replay(a))


if __name__ == '__main__':
    main()
