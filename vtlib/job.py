"""Run ONE job of a harness in this process and write its result as JSON.
usage: python -m vtlib.job <harness module> <tier> <job name> <out file>"""
import importlib
import json
import os
import re
import subprocess
import sys
import time
import traceback


def _track_functions(seen):
    """record every function of the analysed library that is entered (cheap: each code object reports once)"""
    mon = getattr(sys, 'monitoring', None)
    if mon is None:
        return lambda: None
    tool = 3
    try:
        mon.use_tool_id(tool, 'vt-functions')
    except ValueError:
        return lambda: None
    repo = os.path.realpath(os.environ.get('VT_REPO', '/repo')) + os.sep

    def on_start(code, offset):
        fn = code.co_filename
        if fn.startswith(repo):
            seen.add('%s:%s' % (os.path.relpath(fn, repo), code.co_qualname))
        return mon.DISABLE
    mon.register_callback(tool, mon.events.PY_START, on_start)
    mon.set_events(tool, mon.events.PY_START)

    def stop():
        mon.set_events(tool, 0)
        mon.free_tool_id(tool)
    return stop


def run_sx(job, res):
    from symx import core, shims
    seen = set()
    import bitcoinlib.wallets, bitcoinlib.blocks, bitcoinlib.services.services, bitcoinlib.mnemonic  # noqa: import before tracking
    stop = _track_functions(seen)
    ex = core.Explorer(W=job.W, max_paths=job.max_paths, timeout_ms=job.timeout_ms, allow_symmul=job.allow_symmul,
                       budget_s=job.budget_s, incremental=job.incremental)
    ex.optimistic = job.optimistic
    if job.setup:
        job.setup(ex)
    status = 'ok'
    try:
        ex.explore(lambda e: job.fn(e, **job.params))
    except core.EngineLimit as e:
        status = 'inconclusive'
        res['reason'] = 'EngineLimit: %s' % e
        res['trace'] = traceback.format_exc()[-1500:]
    except core.HarnessError as e:
        status = 'error'
        res['reason'] = 'HarnessError: %s' % e
    finally:
        stop()
        shims.uninstall_all()
    st = ex.stats
    st.setdefault('wall_s', time.time() - ex.t0)
    res.update(status=status, paths=st['paths'], aborted=st['aborted'], decisions=st['decisions'],
               queries=st['queries'], solver_s=round(st['solver_s'], 3), obligations=st['obligations'],
               discharged=st['discharged'], validated=st['validated'], cuts=st['cuts'],
               cut_reasons=getattr(ex, 'cut_reasons', {}), reached=st['reached'],
               violations=[core._jsonable(v) for v in st['violations'][:20]], n_violations=len(st['violations']),
               known=[core._jsonable(v) for v in _first_per_finding(st['known'])], n_known=len(st['known']),
               samples=ex.samples, functions=sorted(seen), W=job.W)
    if status == 'ok' and st['obligations'] == 0:
        res['status'] = 'error'
        res['reason'] = 'vacuous: no path reached an obligation'


def _first_per_finding(known):
    out, seen = [], set()
    for k in known:
        key = (k['finding'], k['obligation'])
        if key not in seen:
            seen.add(key)
            out.append(k)
    return out


CH_LINE = re.compile(r'^(?P<file>[^:]+):(?P<line>\d+): (?P<kind>error|info|warning): (?P<msg>.*)$')
CH_CALL = re.compile(r'when calling (?P<call>\w+\(.*?\))(?: \(which (?:returns|raises) .*\))?\s*$')


def run_ch(job, res):
    """one CrossHair condition: the contract of job.ch_func in job.ch_file"""
    import inspect
    mod = _load_file(job.ch_file)
    fn = getattr(mod, job.ch_func)
    line = inspect.getsourcelines(fn)[1] + 1
    py = sys.executable
    cmd = [py, '-m', 'crosshair', 'check', '--report_all', '--per_condition_timeout', str(job.ch_timeout),
           '--per_path_timeout', str(max(10, job.ch_timeout / 4)), '%s:%d' % (job.ch_file, line)]
    t0 = time.time()
    p = subprocess.run(cmd, capture_output=True, text=True, timeout=job.ch_timeout * 3 + 120,
                       cwd=os.path.dirname(job.ch_file))
    res['wall_s'] = time.time() - t0
    res['ch_cmd'] = ' '.join(cmd)
    res['ch_stdout'] = p.stdout[-3000:]
    res['ch_stderr'] = p.stderr[-1500:]
    verdicts = []
    for ln in p.stdout.splitlines():
        m = CH_LINE.match(ln)
        if m:
            verdicts.append((m.group('kind'), m.group('msg')))
    res.update(paths=0, decisions=0, queries=0, solver_s=round(res['wall_s'], 3), obligations=1, discharged=0,
               validated=0, violations=[], known=[], samples=[], functions=[], n_violations=0, n_known=0)
    if not verdicts:
        res['status'] = 'error'
        res['reason'] = 'no crosshair verdict (exit %s)' % p.returncode
        return
    kind, msg = verdicts[0]
    if kind == 'info' and msg.startswith('Confirmed over all paths'):
        res['status'] = 'ok'
        res['discharged'] = 1
        res['paths'] = 1
        res['samples'] = [dict(condition='%s:%s' % (os.path.basename(job.ch_file), job.ch_func), verdict=msg)]
    elif kind == 'error':
        m = CH_CALL.search(msg)
        if not m:
            res['status'] = 'inconclusive'
            res['reason'] = 'crosshair error without call: ' + msg
            return
        res['status'] = 'ok'
        res['violations'] = [dict(obligation=job.name, inputs={'call': m.group('call'), 'message': msg})]
        res['n_violations'] = 1
    else:
        res['status'] = 'inconclusive'
        res['reason'] = 'crosshair: ' + msg


def _load_file(path):
    import importlib.util
    name = 'chmod_' + os.path.splitext(os.path.basename(path))[0]
    spec = importlib.util.spec_from_file_location(name, path)
    mod = importlib.util.module_from_spec(spec)
    spec.loader.exec_module(mod)
    return mod


def main():
    hname, tier, jname, out = sys.argv[1:5]
    res = dict(job=jname, tier=tier, status='error')
    t0 = time.time()
    try:
        h = importlib.import_module(hname)
        jobs = [j for j in h.jobs(tier) if j.name == jname]
        if len(jobs) != 1:
            raise RuntimeError("job %r not found / ambiguous in %s" % (jname, hname))
        job = jobs[0]
        res['engine'] = job.engine
        res['note'] = job.note
        res['params'] = {k: repr(v)[:200] for k, v in job.params.items()}
        if job.engine == 'sx':
            run_sx(job, res)
        else:
            run_ch(job, res)
    except BaseException as e:      # noqa - report everything, including path-steering leaks
        res['status'] = 'error'
        res['reason'] = '%s: %s' % (type(e).__name__, e)
        res['trace'] = traceback.format_exc()[-3000:]
    res['wall_s'] = round(time.time() - t0, 3)
    with open(out, 'w') as f:
        json.dump(res, f)


if __name__ == '__main__':
    main()
