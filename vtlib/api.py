"""Harness-facing API: Job descriptions and known-finding lookup."""
import json
import os

VERIF = os.path.dirname(os.path.dirname(os.path.abspath(__file__)))
REPO = os.environ.get('VT_REPO', '/repo')


class Job:
    """One independently scheduled unit: a symbolic exploration of one harness function (engine 'sx') or one
    CrossHair condition (engine 'ch')."""

    def __init__(self, name, fn=None, engine='sx', W=136, params=None, budget_s=900, max_paths=200000,
                 timeout_ms=120000, allow_symmul=False, setup=None, ch_file=None, ch_func=None, ch_timeout=120,
                 ch_args=None, note='', incremental=True, optimistic=False, known_finding=None):
        # known_finding (CrossHair jobs): this condition states the specification WITHOUT the listed deviation; a replayed
        # counterexample is the exhibit of that listed finding (its sibling condition 'spec or deviation' must be confirmed)
        self.known_finding = known_finding
        self.incremental = incremental
        self.optimistic = optimistic
        self.name, self.fn, self.engine, self.W = name, fn, engine, W
        self.params = params or {}
        self.budget_s, self.max_paths, self.timeout_ms = budget_s, max_paths, timeout_ms
        self.allow_symmul = allow_symmul
        self.setup = setup
        self.ch_file, self.ch_func, self.ch_timeout, self.ch_args = ch_file, ch_func, ch_timeout, ch_args
        self.note = note


_kf_cache = None


def known_findings():
    """committed list of recorded (not repaired) genuine defects; read-only at run time"""
    global _kf_cache
    if _kf_cache is None:
        with open(os.path.join(VERIF, 'known_findings.json')) as f:
            _kf_cache = json.load(f)
    return _kf_cache


def kf(finding_id, exempt):
    """[(id, exempt)] if `finding_id` is a listed open finding, else [] (so that an unlisted deviation is a
    violation)."""
    for f in known_findings()['findings']:
        if f['id'] == finding_id:
            return [(finding_id, exempt)]
    return []


def kf_listed(finding_id):
    return any(f['id'] == finding_id for f in known_findings()['findings'])


def kf_entry(finding_id):
    for f in known_findings()['findings']:
        if f['id'] == finding_id:
            return f
    return None
