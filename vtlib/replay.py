"""Replay a recorded counterexample against the real, unshimmed library in this (fresh) interpreter.
usage: python -m vtlib.replay <replay file>     exit 10 = reproduced (violation), 14 = reproduced a listed known
finding, 0 = not reproduced, anything else = the replay itself failed"""
import importlib
import json
import sys
import traceback


def replay(path, verbose=True):
    from symx import core
    with open(path) as f:
        r = json.load(f)
    h = importlib.import_module(r['harness'])
    jobs = [j for j in h.jobs(r['tier']) if j.name == r['job']]
    if len(jobs) != 1:
        raise RuntimeError("job %r not found" % r['job'])
    job = jobs[0]
    if job.engine == 'ch':
        from vtlib.job import _load_file
        mod = _load_file(job.ch_file)
        call = r['inputs']['call']
        try:
            val = eval(call, dict(mod.__dict__))
            detail = '%s returned %r' % (call, val)
            bad = val is False
        except Exception as e:
            detail = '%s raised %s: %s' % (call, type(e).__name__, e)
            bad = True
        if verbose:
            print(detail)
        return ('violation' if bad else 'no', detail)
    inputs = core.from_jsonable(r['inputs'])
    ex = core.ConcreteEx(inputs)
    try:
        job.fn(ex, **job.params)
    except core.PathAbort:
        pass
    except core.HarnessError:
        raise
    except Exception as e:
        if core.exception_origin(e.__traceback__) != 'repo':
            raise          # the harness itself failed in concrete mode: replay error, not a verdict
        detail = 'real code raised %s: %s' % (type(e).__name__, e)
        if verbose:
            print(detail)
            traceback.print_exc()
        if r['obligation'].startswith('unexpected-exception:'):
            # the real code raises where the harness expects none (the exception class may differ from the one seen
            # under the proxies)
            return ('violation', detail)
        return ('no', detail)
    want = r['obligation']
    for oid, kid in ex.failed:
        if oid == want:
            if kid is None:
                return ('violation', 'obligation %s fails on the real code with inputs %r' % (oid, inputs))
            return ('known:' + kid, 'obligation %s shows listed finding %s with inputs %r' % (oid, kid, inputs))
    return ('no', 'obligation %s holds on the real code for the recorded inputs (passed=%r failed=%r)'
            % (want, ex.passed[:5], ex.failed[:5]))


def main():
    verdict, detail = replay(sys.argv[1])
    print('REPLAY %s: %s' % (verdict, detail))
    sys.exit(10 if verdict == 'violation' else (14 if verdict.startswith('known:') else 0))


if __name__ == '__main__':
    main()
